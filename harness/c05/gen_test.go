package c05

import (
	"fmt"
	"math"
	"math/big"
	"strconv"
	"strings"

	"pgregory.net/rapid"

	"verifh/internal/jsx"
	"verifh/internal/numref"
)

// GoVal is a Go-side numeric value bound as a global before the script runs.
type GoVal struct {
	Name string `json:"name"`
	Type string `json:"type"` // int, int8, …, float64, string
	Repr string `json:"repr"` // decimal text (strconv) or the string itself
}

type genCtx struct {
	t      *rapid.T
	goVals []GoVal
	prods  map[string]int
	top    string
	depth  int
}

func two(k int) float64 { return math.Ldexp(1, k) }

var boundaryValues = []float64{
	0, math.Copysign(0, -1), 1, -1, 2, -2, 0.5, -0.5, 1.5, 255, 256, 127, 128, -128, -129, 65535, 65536, 32767, 32768, -32768,
	two(31) - 1, two(31), -two(31), -two(31) - 1, two(32) - 1, two(32), two(32) + 1, -two(32), two(31) + 0.5,
	two(53), -two(53), two(53) - 1, two(53) - 2, two(53) + 2, -(two(53) + 2), two(53) + 4, two(52), two(52) + 0.5,
	two(63), two(63) + two(11), two(63) - two(10), -two(63), -(two(63) + two(11)), two(64), two(64) + two(12), two(65), 1e21, 1e300, -1e300,
	5e-324, 1e-323, two(-1074) * 3, 2.2250738585072014e-308, 2.225073858507201e-308, math.MaxFloat64, -math.MaxFloat64,
	math.NaN(), math.Inf(1), math.Inf(-1), 1e-7, 123456789.125, 4294967295.5, -2147483648.5, 0.1, 0.30000000000000004,
}

func genTarget(t *rapid.T) float64 {
	switch rapid.IntRange(0, 9).Draw(t, "tclass") {
	case 0, 1, 2:
		return boundaryValues[rapid.IntRange(0, len(boundaryValues)-1).Draw(t, "bv")]
	case 3, 4:
		return float64(rapid.IntRange(-20, 40).Draw(t, "small"))
	case 5:
		return float64(rapid.IntRange(-64, 64).Draw(t, "q")) / 4
	case 6:
		return float64(rapid.Int64Range(-(1<<53), 1<<53).Draw(t, "i53"))
	case 7:
		return float64(rapid.Int64Range(-(1<<32)-5, (1<<32)+5).Draw(t, "i32"))
	case 8:
		// neighbourhood of a boundary
		b := boundaryValues[rapid.IntRange(0, len(boundaryValues)-1).Draw(t, "bv")]
		d := rapid.IntRange(-2, 2).Draw(t, "ulps")
		for ; d > 0; d-- {
			b = math.Nextafter(b, math.Inf(1))
		}
		for ; d < 0; d++ {
			b = math.Nextafter(b, math.Inf(-1))
		}
		return b
	default:
		f := math.Float64frombits(rapid.Uint64().Draw(t, "bits"))
		return f
	}
}

func isInt(v float64) bool {
	return !math.IsNaN(v) && !math.IsInf(v, 0) && v == math.Trunc(v)
}
func negZero(v float64) bool { return v == 0 && math.Signbit(v) }
func isInt32(v float64) bool {
	return isInt(v) && !negZero(v) && v >= -two(31) && v < two(31)
}
func isUint32(v float64) bool {
	return isInt(v) && !negZero(v) && v >= 0 && v < two(32)
}
func safeInt(v float64) bool { return isInt(v) && math.Abs(v) <= two(53) }

func sv(a, b float64) bool { return numref.SameValue(a, b) }

// decimal text forms of v that StringToNumber maps back to exactly v.
func (g *genCtx) numText(v float64) string {
	base := jsx.NumberToString(v)
	if math.IsNaN(v) || math.IsInf(v, 0) {
		return base
	}
	if negZero(v) {
		base = "-0"
	}
	switch rapid.IntRange(0, 7).Draw(g.t, "textform") {
	case 0:
		if !strings.ContainsAny(base, ".e") {
			return base + ".0"
		}
	case 1:
		if v >= 0 && !negZero(v) {
			return "+" + base
		}
	case 2:
		if strings.HasPrefix(base, "-") {
			return "-00" + base[1:]
		}
		return "00" + base
	case 3:
		// exact expansion via strconv %f when short
		if isInt(v) && math.Abs(v) < 1e21 {
			s := strconv.FormatFloat(v, 'f', -1, 64)
			if negZero(v) {
				s = "-0"
			}
			return s + "e0"
		}
	case 4:
		if !strings.Contains(base, "e") {
			return base + "E+0"
		}
	}
	return base
}

var wsPool = numref.AllJSSpaces

func (g *genCtx) padWS(s string) (string, bool) {
	nonASCII := false
	n := rapid.IntRange(0, 3).Draw(g.t, "wsl")
	var l, r []rune
	for i := 0; i < n; i++ {
		c := wsPool[rapid.IntRange(0, len(wsPool)-1).Draw(g.t, "ws")]
		if c >= 0x80 {
			nonASCII = true
		}
		l = append(l, c)
	}
	m := rapid.IntRange(0, 3).Draw(g.t, "wsr")
	for i := 0; i < m; i++ {
		c := wsPool[rapid.IntRange(0, len(wsPool)-1).Draw(g.t, "ws")]
		if c >= 0x80 {
			nonASCII = true
		}
		r = append(r, c)
	}
	return string(l) + s + string(r), nonASCII
}

// strExpr returns a JS expression for a *string* whose ToNumber is v.
func (g *genCtx) strExpr(v float64) string {
	s, _ := g.strExpr2(v, true)
	return s
}

// strExpr2 additionally reports whether a 0x/0b/0o form was used (those are
// only understood by ToNumber, not by parseFloat).
func (g *genCtx) strExpr2(v float64, allowRadix bool) (string, bool) {
	radix := false
	txt := g.numText(v)
	if allowRadix && isInt(v) && v >= 0 && !negZero(v) && rapid.IntRange(0, 3).Draw(g.t, "radixform") == 0 {
		bi, _ := new(big.Float).SetFloat64(v).Int(nil)
		switch rapid.IntRange(0, 2).Draw(g.t, "rf") {
		case 0:
			txt = "0x" + bi.Text(16)
		case 1:
			txt = "0b" + bi.Text(2)
		default:
			txt = "0O" + bi.Text(8)
		}
		radix = true
		if len(txt) > 400 {
			txt = g.numText(v)
			radix = false
		}
	}
	if rapid.IntRange(0, 2).Draw(g.t, "pad") > 0 {
		txt, _ = g.padWS(txt)
	}
	switch rapid.IntRange(0, 3).Draw(g.t, "srep") {
	case 0:
		// Go string injected with ToValue (padded past 16 bytes half of the time)
		s := txt
		if rapid.Bool().Draw(g.t, "long") {
			for len(s) <= 16 {
				s = " " + s + "\t"
			}
		}
		name := fmt.Sprintf("g%d", len(g.goVals))
		g.goVals = append(g.goVals, GoVal{Name: name, Type: "string", Repr: s})
		return name, radix
	case 1:
		return jsx.StrLitGo(txt, false), radix
	case 2:
		// split concat
		r := []rune(txt)
		k := rapid.IntRange(0, len(r)).Draw(g.t, "split")
		return "(" + jsx.StrLitGo(string(r[:k]), true) + "+" + jsx.StrLitGo(string(r[k:]), true) + ")", radix
	}
	return jsx.StrLitGo(txt, true), radix
}

func (g *genCtx) goNum(v float64) (string, bool) {
	type cand struct{ typ, repr string }
	var cs []cand
	cs = append(cs, cand{"float64", strconv.FormatFloat(v, 'g', -1, 64)})
	if float64(float32(v)) == v || math.IsNaN(v) {
		cs = append(cs, cand{"float32", strconv.FormatFloat(v, 'g', -1, 64)})
	}
	if isInt(v) && !negZero(v) {
		add := func(typ string, lo, hi float64) {
			if v >= lo && v <= hi {
				bi, _ := new(big.Float).SetFloat64(v).Int(nil)
				cs = append(cs, cand{typ, bi.String()})
			}
		}
		add("int8", -128, 127)
		add("int16", -32768, 32767)
		add("int32", -two(31), two(31)-1)
		add("int64", -two(63), two(63)-1025)
		add("int", -two(63), two(63)-1025)
		add("uint8", 0, 255)
		add("uint16", 0, 65535)
		add("uint32", 0, two(32)-1)
		add("uint64", 0, two(64)-2049)
		add("uint", 0, two(64)-2049)
		add("bigint", -1e30, 1e30)
	}
	c := cs[rapid.IntRange(0, len(cs)-1).Draw(g.t, "gotype")]
	if c.typ == "bigint" {
		return "", false
	}
	name := fmt.Sprintf("g%d", len(g.goVals))
	g.goVals = append(g.goVals, GoVal{Name: name, Type: c.typ, Repr: c.repr})
	return name, true
}

func (g *genCtx) pick(vals ...float64) float64 {
	return vals[rapid.IntRange(0, len(vals)-1).Draw(g.t, "pick")]
}

var storageForms = []string{"var", "stash", "prop", "elem", "global", "let"}

// stepOperand picks an operand w with w + step == v in float64 arithmetic: besides the obvious
// v - step, the operands that only reach v through rounding or through the sign of zero (-0 + 1,
// 2^52 - 0.5 + 1, -(2^53+2) + 1), whose internal representation is a float although v is integral.
func (g *genCtx) stepOperand(v, step float64) (float64, bool) {
	base := v - step
	cands := []float64{base, base - 0.5, base + 0.5, base - step, math.Nextafter(base, math.Inf(1)), math.Nextafter(base, math.Inf(-1))}
	if base == 0 {
		cands = append(cands, math.Copysign(0, -1), math.Copysign(0, -1), 0)
	}
	var ok []float64
	for _, w := range cands {
		if !math.IsInf(w, 0) && !math.IsNaN(w) && sv(w+step, v) {
			ok = append(ok, w)
		}
	}
	if len(ok) == 0 {
		return 0, false
	}
	return ok[rapid.IntRange(0, len(ok)-1).Draw(g.t, "stepop")], true
}

// wrapUpdate builds an IIFE that stores init in a location of a random storage
// kind, applies stmt (with X standing for the location) and returns ret.
func (g *genCtx) wrapUpdate(init, stmt, ret string) string {
	form := storageForms[rapid.IntRange(0, len(storageForms)-1).Draw(g.t, "storage")]
	var decl, x string
	switch form {
	case "var":
		decl, x = "var x="+init+";", "x"
	case "let":
		decl, x = "let x="+init+";", "x"
	case "stash":
		decl, x = "var x="+init+";function cap(){return x};", "x"
	case "prop":
		decl, x = "var o={p:"+init+"};", "o.p"
	case "elem":
		decl, x = "var a=["+init+"];", "a[0]"
	case "global":
		decl, x = "gx="+init+";", "gx"
	}
	stmt = strings.ReplaceAll(stmt, "@@", x)
	ret = strings.ReplaceAll(ret, "@@", x)
	return "(function(){" + decl + stmt + ";return " + ret + "})()"
}

func (g *genCtx) numOrStr(v float64, d int) string {
	if rapid.IntRange(0, 3).Draw(g.t, "asstr") == 0 {
		return g.strExpr(v)
	}
	return g.gen(v, d)
}

// producer tries to build an expression of the given kind that evaluates to v.
func (g *genCtx) producer(kind string, v float64, d int) (string, bool) {
	t := g.t
	nan := math.IsNaN(v)
	fin := !nan && !math.IsInf(v, 0)
	switch kind {
	case "lit":
		if isInt(v) && v >= 0 && !negZero(v) && v < two(64) && rapid.IntRange(0, 2).Draw(t, "litform") == 0 {
			bi, _ := new(big.Float).SetFloat64(v).Int(nil)
			switch rapid.IntRange(0, 3).Draw(t, "lf") {
			case 0:
				return "0x" + bi.Text(16), true
			case 1:
				return "0b" + bi.Text(2), true
			case 2:
				return "0o" + bi.Text(8), true
			default:
				return bi.String() + ".0", true
			}
		}
		return jsx.NumLit(v), true
	case "neg":
		return "(-" + g.numOrStr(-v, d-1) + ")", true
	case "plusstr":
		s := g.strExpr(v)
		switch rapid.IntRange(0, 5).Draw(t, "strconv") {
		case 0:
			return "(+" + s + ")", true
		case 1:
			return "Number(" + s + ")", true
		case 2:
			return "(" + s + "*1)", true
		case 3:
			return "(" + s + "-0)", true
		case 4:
			return "(" + s + "/1)", true
		default:
			if fin {
				s2, _ := g.strExpr2(v, false)
				return "parseFloat(" + s2 + "+" + jsx.StrLitGo(g.junk(), true) + ")", true
			}
			return "(+" + s + ")", true
		}
	case "add":
		if !fin {
			return "", false
		}
		a := g.pick(1, -1, 0.5, 2, two(31), two(32), -two(32), two(53), math.Trunc(v/2), 0, math.Copysign(0, -1), 3, 1e16, v)
		b := v - a
		if !sv(a+b, v) {
			return "", false
		}
		return "(" + g.numOrStrNoStrBoth(a, b, d-1, "+") + ")", true
	case "sub":
		if !fin {
			return "", false
		}
		a := g.pick(1, -1, 0.5, 2, two(31), two(32), two(53), 0, math.Copysign(0, -1), v, v+1)
		b := a - v
		if !sv(a-b, v) {
			return "", false
		}
		return "(" + g.numOrStr(a, d-1) + " - " + g.numOrStr(b, d-1) + ")", true
	case "mul":
		if !fin {
			return "", false
		}
		k := g.pick(2, 3, -1, 0.5, 4, 1, -2, 10, 0.25)
		a := v / k
		if !sv(a*k, v) {
			return "", false
		}
		return "(" + g.numOrStr(a, d-1) + " * " + g.numOrStr(k, d-1) + ")", true
	case "div":
		if !fin {
			if nan {
				return "(" + g.gen(0, d-1) + "/" + g.gen(0, d-1) + ")", true
			}
			if v > 0 {
				return "(" + g.gen(1, d-1) + "/" + g.gen(0, d-1) + ")", true
			}
			return "(" + g.gen(1, d-1) + "/" + g.gen(math.Copysign(0, -1), d-1) + ")", true
		}
		k := g.pick(2, 4, -1, 0.5, 1, -2, 8)
		a := v * k
		if math.IsInf(a, 0) || !sv(a/k, v) {
			return "", false
		}
		return "(" + g.numOrStr(a, d-1) + " / " + g.numOrStr(k, d-1) + ")", true
	case "mod":
		if !fin || math.Abs(v) > 1e15 {
			return "", false
		}
		m := g.pick(math.Abs(v)+1, math.Abs(v)+2.5, 1e16, two(32))
		q := g.pick(0, 1, 2, 7)
		a := v + math.Copysign(m*q, v)
		if !sv(math.Mod(a, m), v) {
			return "", false
		}
		return "(" + g.numOrStr(a, d-1) + " % " + g.numOrStr(m, d-1) + ")", true
	case "update":
		if !fin {
			return "", false
		}
		switch rapid.IntRange(0, 11).Draw(t, "upd") {
		case 0: // ++x value
			w, ok := g.stepOperand(v, 1)
			if !ok {
				return "", false
			}
			return g.wrapUpdate(g.numOrStr(w, d-1), "", "++@@"), true
		case 1: // x++ then read
			w, ok := g.stepOperand(v, 1)
			if !ok {
				return "", false
			}
			return g.wrapUpdate(g.numOrStr(w, d-1), "@@++", "@@"), true
		case 2: // x++ returns old ToNumber
			return g.wrapUpdate(g.numOrStr(v, d-1), "", "@@++"), true
		case 3:
			w, ok := g.stepOperand(v, -1)
			if !ok {
				return "", false
			}
			return g.wrapUpdate(g.numOrStr(w, d-1), "", "--@@"), true
		case 4:
			w, ok := g.stepOperand(v, -1)
			if !ok {
				return "", false
			}
			return g.wrapUpdate(g.numOrStr(w, d-1), "@@--", "@@"), true
		case 5:
			return g.wrapUpdate(g.numOrStr(v, d-1), "", "@@--"), true
		case 6:
			dl := g.pick(1, 2, 0.5, two(32), -1)
			if !sv((v-dl)+dl, v) {
				return "", false
			}
			return g.wrapUpdate(g.gen(v-dl, d-1), "@@+="+g.gen(dl, d-1), "@@"), true
		case 7:
			dl := g.pick(1, 2, 0.5, two(32), -1)
			if !sv((v+dl)-dl, v) {
				return "", false
			}
			return g.wrapUpdate(g.numOrStr(v+dl, d-1), "@@-="+g.numOrStr(dl, d-1), "@@"), true
		case 8:
			k := g.pick(2, -1, 0.5, 4)
			if !sv((v/k)*k, v) {
				return "", false
			}
			return g.wrapUpdate(g.numOrStr(v/k, d-1), "@@*="+g.numOrStr(k, d-1), "@@"), true
		case 9:
			k := g.pick(2, -1, 0.5, 4)
			if math.IsInf(v*k, 0) || !sv((v*k)/k, v) {
				return "", false
			}
			return g.wrapUpdate(g.numOrStr(v*k, d-1), "@@/="+g.numOrStr(k, d-1), "@@"), true
		case 10:
			if !isInt32(v) {
				return "", false
			}
			return g.wrapUpdate(g.numOrStr(v+two(32), d-1), "@@|=0", "@@"), true
		default:
			if !isUint32(v) {
				return "", false
			}
			return g.wrapUpdate(g.numOrStr(v-two(32), d-1), "@@>>>=0", "@@"), true
		}
	case "bit":
		if isInt32(v) || isUint32(v) {
			w := v
			switch rapid.IntRange(0, 4).Draw(t, "bitw") {
			case 0:
				w = v + two(32)*g.pick(1, -1, 2, -2, 1024, two(20))
			case 1:
				if v > 0 {
					w = v + 0.5
				} else if v < 0 {
					w = v - 0.5
				} else {
					w = g.pick(0.5, -0.5, math.Copysign(0, -1), 1e-320, -0.9)
				}
			case 2:
				if v == 0 {
					w = g.pick(math.NaN(), math.Inf(1), math.Inf(-1), two(32), two(64), two(63), -two(63), two(1000))
				}
			}
			if !(isInt32(v) && float64(numref.ToInt32(w)) == v) && !(isUint32(v) && float64(numref.ToUint32(w)) == v) {
				w = v
			}
			if isInt32(v) && isUint32(v) && float64(numref.ToInt32(w)) != float64(numref.ToUint32(w)) {
				w = v
			}
			e := g.numOrStr(w, d-1)
			if isInt32(v) && (!isUint32(v) || rapid.Bool().Draw(t, "signed")) {
				ops := []string{"(%s|0)", "(%s>>0)", "(%s<<0)", "(~~%s)", "(%s^0)", "(%s&-1)", "(0|%s)", "(%s&0xffffffff)"}
				return fmt.Sprintf(ops[rapid.IntRange(0, len(ops)-1).Draw(t, "bop")], e), true
			}
			if isUint32(v) {
				return "(" + e + ">>>0)", true
			}
		}
		return "", false
	case "math":
		switch rapid.IntRange(0, 13).Draw(t, "mathfn") {
		case 0:
			if safeInt(v) && math.Abs(v) < two(50) {
				w := v + g.pick(0.25, -0.25)
				if v == 0 {
					w = math.Copysign(0.25, v)
				}
				return "Math.round(" + g.numOrStr(w, d-1) + ")", true
			}
		case 1:
			if safeInt(v) && math.Abs(v) < two(50) {
				w := v + 0.5
				if negZero(v) {
					w = v
				}
				return "Math.floor(" + g.numOrStr(w, d-1) + ")", true
			}
		case 2:
			if safeInt(v) && math.Abs(v) < two(50) {
				w := v - 0.5
				if v == 0 && !negZero(v) {
					w = v
				}
				return "Math.ceil(" + g.numOrStr(w, d-1) + ")", true
			}
		case 3:
			if safeInt(v) && math.Abs(v) < two(50) {
				w := v + math.Copysign(0.5, v)
				return "Math.trunc(" + g.numOrStr(w, d-1) + ")", true
			}
		case 4:
			if nan || (v >= 0 && !negZero(v)) {
				w := v
				if rapid.Bool().Draw(t, "absneg") {
					w = -v
				}
				return "Math.abs(" + g.numOrStr(w, d-1) + ")", true
			}
		case 5:
			if nan {
				return "Math.max(" + g.gen(1, d-1) + "," + g.gen(v, d-1) + ")", true
			}
			u := g.pick(math.Inf(-1), v-1, -math.MaxFloat64)
			if u < v || negZero(u) && v == 0 && !negZero(v) {
				if rapid.Bool().Draw(t, "ord") {
					return "Math.max(" + g.numOrStr(u, d-1) + "," + g.numOrStr(v, d-1) + ")", true
				}
				return "Math.max(" + g.numOrStr(v, d-1) + "," + g.numOrStr(u, d-1) + ")", true
			}
		case 6:
			if nan {
				return "Math.min(" + g.gen(v, d-1) + "," + g.gen(1, d-1) + ")", true
			}
			u := g.pick(math.Inf(1), v+1, math.MaxFloat64)
			if u > v {
				if rapid.Bool().Draw(t, "ord") {
					return "Math.min(" + g.numOrStr(u, d-1) + "," + g.numOrStr(v, d-1) + ")", true
				}
				return "Math.min(" + g.numOrStr(v, d-1) + "," + g.numOrStr(u, d-1) + ")", true
			}
		case 7:
			if v == 1 || v == -1 {
				return "Math.sign(" + g.numOrStr(v*g.pick(1, 5, 0.5, two(60), 5e-324, math.Inf(1)), d-1) + ")", true
			}
			if v == 0 || nan {
				return "Math.sign(" + g.numOrStr(v, d-1) + ")", true
			}
		case 8:
			if nan || float64(float32(v)) == v {
				return "Math.fround(" + g.numOrStr(v, d-1) + ")", true
			}
		case 9:
			if isInt(v) && v >= 0 && !negZero(v) && v < two(26) {
				return "Math.sqrt(" + g.numOrStr(v*v, d-1) + ")", true
			}
		case 10:
			if isInt32(v) {
				a, b := v, 1.0
				if v != 0 && math.Mod(v, 2) == 0 && v != -two(31) {
					a, b = v/2, 2
				}
				if rapid.Bool().Draw(t, "imulwrap") {
					a += two(32)
				}
				return "Math.imul(" + g.numOrStr(a, d-1) + "," + g.numOrStr(b, d-1) + ")", true
			}
		case 11:
			if isInt(v) && v >= 0 && v <= 32 && !negZero(v) {
				w := 0.0
				if v < 32 {
					w = two(31 - int(v))
					if v < 31 && rapid.Bool().Draw(t, "clzlow") {
						w += 1
					}
				}
				return "Math.clz32(" + g.numOrStr(w, d-1) + ")", true
			}
		case 12:
			// integer power with exactly representable integer result
			if isInt(v) && v != 0 && math.Abs(v) <= two(53) {
				for _, b := range []float64{2, 3, -2, 10, 5, -3, 7} {
					// find e with b^e == v
					p := 1.0
					for e := 0; e <= 53; e++ {
						if p == v && e >= 1 {
							be := g.numOrStr(b, d-1)
							if b < 0 {
								be = "(" + be + ")"
							}
							if rapid.Bool().Draw(t, "powform") {
								return "Math.pow(" + be + "," + g.numOrStr(float64(e), d-1) + ")", true
							}
							return "((" + be + ")**" + g.gen(float64(e), d-1) + ")", true
						}
						p *= b
						if math.Abs(p) > two(53) {
							break
						}
					}
				}
			}
			if !nan {
				return "(" + g.gen(v, d-1) + "**1)", true
			}
		default:
			if safeInt(v) && !negZero(v) {
				bi, _ := new(big.Float).SetFloat64(v).Int(nil)
				return "Number(" + bi.String() + "n)", true
			}
		}
		return "", false
	case "parse":
		if nan {
			return "parseInt(" + jsx.StrLitGo(g.pick2("", "x", "-", "0x", " "), true) + ")", true
		}
		if !fin {
			return "parseFloat(" + g.strExprPF(v) + ")", true
		}
		switch rapid.IntRange(0, 3).Draw(t, "parsefn") {
		case 0:
			if safeInt(v) && math.Abs(v) < 1e21 {
				s := strconv.FormatFloat(v, 'f', -1, 64)
				if negZero(v) {
					s = "-0"
				}
				s, _ = g.padLeft(s)
				return "parseInt(" + jsx.StrLitGo(s+g.junkRadix(10), false) + ")", true
			}
		case 1:
			if safeInt(v) {
				bi, _ := new(big.Float).SetFloat64(v).Int(nil)
				r := int(g.pick(2, 8, 16, 32, 36, 4))
				s := bi.Text(r)
				if negZero(v) {
					s = "-0"
				}
				pre := ""
				if r == 16 && rapid.Bool().Draw(t, "hexpre") {
					if strings.HasPrefix(s, "-") {
						s = "-0x" + s[1:]
					} else {
						s = "0x" + s
					}
				}
				return "parseInt(" + jsx.StrLitGo(pre+s+g.junkRadix(r), true) + "," + g.gen(float64(r), d-1) + ")", true
			}
		case 2:
			s := jsx.NumberToString(v)
			if negZero(v) {
				s = "-0"
			}
			s, _ = g.padLeft(s)
			return "parseFloat(" + jsx.StrLitGo(s+g.junk(), false) + ")", true
		default:
			if !negZero(v) || true {
				s := jsx.NumberToString(v)
				if negZero(v) {
					s = "-0"
				}
				return "JSON.parse(" + jsx.StrLitGo(" "+s+" ", true) + ")", true
			}
		}
		return "", false
	case "typed":
		switch rapid.IntRange(0, 9).Draw(t, "tkind") {
		case 0:
			return "new Float64Array([" + g.numOrStr(v, d-1) + "])[0]", true
		case 1:
			if isInt32(v) {
				return "new Int32Array([" + g.numOrStr(v+two(32)*g.pick(0, 1, -1), d-1) + "])[0]", true
			}
		case 2:
			if isUint32(v) {
				return "new Uint32Array([" + g.numOrStr(v+two(32)*g.pick(0, 1, -1), d-1) + "])[0]", true
			}
		case 3:
			if isInt(v) && v >= -128 && v <= 127 && !negZero(v) {
				return "new Int8Array([" + g.numOrStr(v+256*g.pick(0, 1, -1, 4), d-1) + "])[0]", true
			}
		case 4:
			if isInt(v) && v >= 0 && v <= 255 && !negZero(v) {
				if rapid.Bool().Draw(t, "clamped") {
					return "new Uint8ClampedArray([" + g.numOrStr(v, d-1) + "])[0]", true
				}
				return "new Uint8Array([" + g.numOrStr(v+256*g.pick(0, 1, -1, 4), d-1) + "])[0]", true
			}
		case 5:
			if nan || float64(float32(v)) == v {
				return "new Float32Array([" + g.numOrStr(v, d-1) + "])[0]", true
			}
		case 6:
			le := g.pick2("true", "false", "", "1")
			sl := le
			if le != "" {
				sl = "," + le
			}
			return "(function(){var dv=new DataView(new ArrayBuffer(16));dv.setFloat64(3," + g.numOrStr(v, d-1) + sl + ");return dv.getFloat64(3" + sl + ")})()", true
		case 7:
			if isInt32(v) {
				return "(function(){var dv=new DataView(new ArrayBuffer(8));dv.setInt32(1," + g.numOrStr(v, d-1) + ");return dv.getInt32(1)})()", true
			}
		case 8:
			if isInt(v) && v >= 0 && v < 65536 && !negZero(v) {
				return "(function(){var dv=new DataView(new ArrayBuffer(8));dv.setUint16(0," + g.numOrStr(v+65536, d-1) + ",true);return dv.getUint16(0,true)})()", true
			}
		default:
			if isInt(v) && v >= -two(15) && v < two(15) && !negZero(v) {
				return "(function(){var a=new Int16Array(2);a[1]=" + g.numOrStr(v, d-1) + ";return a[1]})()", true
			}
		}
		return "", false
	case "goval":
		return g.goNum(v)
	case "misc":
		switch rapid.IntRange(0, 12).Draw(t, "misc") {
		case 0:
			if isInt(v) && v >= 0 && v <= 6 && !negZero(v) {
				return "[" + strings.TrimSuffix(strings.Repeat("0,", int(v)), ",") + "].length", true
			}
		case 1:
			if isInt(v) && v >= 0 && v <= 6 && !negZero(v) {
				return jsx.StrLitGo(strings.Repeat("a", int(v)), true) + ".length", true
			}
		case 2:
			if isInt(v) && v >= -1 && v <= 5 && !negZero(v) {
				return `"abcdef".indexOf(` + jsx.StrLitGo(string(rune('a'+int(v))), true) + ")", v >= 0
			}
		case 3:
			switch {
			case v == 1:
				return g.pick2("(+true)", "Number(true)", "(true*1)", "(-(-true))"), true
			case v == 2:
				return "(true+true)", true
			case v == 0 && !negZero(v):
				return g.pick2("(+false)", "(+null)", "(+[])", `(+"")`, "Number(null)", "(null*1)", "Number()", "(+[[]])"), true
			case negZero(v):
				return g.pick2("(-false)", "(-null)", `(-"")`, "(-[])"), true
			case nan:
				return g.pick2("(+undefined)", "(+{})", `(+"x")`, "Number(undefined)", "(undefined*1)", "(0/0)", "Number.NaN", "(+[1,2])",
					// NaNs with other bit patterns, read back from memory: there is only one NaN value in the language
					"new Float64Array(new Uint8Array([0,0,0,0,0,0,0xf8,0x7f]).buffer)[0]",
					"new Float64Array(new Uint8Array([0,0,0,0,0,0,0xf8,0xff]).buffer)[0]",
					"new Float64Array(new Uint8Array([1,0,0,0,0,0,0xf0,0x7f]).buffer)[0]",
					"new Float64Array(new Uint8Array([0xff,0xff,0xff,0xff,0xff,0xff,0xff,0x7f]).buffer)[0]",
					"new DataView(new Uint8Array([0x7f,0xf8,0,0,0,0,0,0]).buffer).getFloat64(0)",
					"new DataView(new Uint8Array([0xff,0xf0,0,0,0,0,0,1]).buffer).getFloat64(0)",
					"new Float32Array(new Uint8Array([0,0,0xc0,0xff]).buffer)[0]",
					"new Float32Array(new Uint8Array([1,0,0x80,0x7f]).buffer)[0]",
					"new DataView(new Uint8Array([0x7f,0xc0,0,1]).buffer).getFloat32(0)",
					"(function(){var f=new Float64Array(1);new BigUint64Array(f.buffer)[0]=0x7ff8000000000000n;return f[0]})()",
					"(function(){var f=new Float64Array(2);new Uint32Array(f.buffer)[3]=0xfff80000;return f.at(1)})()"), true
			}
		case 4:
			if isInt(v) && v >= 1 && v <= 28 {
				return "new Date(Date.UTC(2020,1," + g.gen(v, d-1) + ")).getUTCDate()", true
			}
		case 5:
			if isInt(v) && v >= 0 && v <= 999 && !negZero(v) {
				return "new Date(" + g.numOrStrNoStr(v+1000*g.pick(0, 1, 86400), d-1) + ").getUTCMilliseconds()", true
			}
		case 6:
			if isInt(v) && math.Abs(v) <= 8.64e15 && !negZero(v) {
				return "new Date(" + g.gen(v, d-1) + ")." + g.pick2("getTime", "valueOf") + "()", true
			}
		case 7:
			if isInt(v) && math.Abs(v) < 1e12 && !negZero(v) {
				return "Date.UTC(1970,0,1,0,0,0," + g.gen(v, d-1) + ")", true
			}
		case 8:
			switch {
			case v == two(53)-1:
				return "Number.MAX_SAFE_INTEGER", true
			case v == -(two(53) - 1):
				return "Number.MIN_SAFE_INTEGER", true
			case v == 5e-324:
				return "Number.MIN_VALUE", true
			case v == math.MaxFloat64:
				return "Number.MAX_VALUE", true
			case math.IsInf(v, 1):
				return g.pick2("Number.POSITIVE_INFINITY", "(1/0)", "Infinity", "(-(-Infinity))", "1e999"), true
			case math.IsInf(v, -1):
				return g.pick2("Number.NEGATIVE_INFINITY", "(-1/0)", "(-Infinity)", "(1/-0)", "(-1e999)"), true
			}
		case 9:
			e := g.gen(v, d-1)
			switch rapid.IntRange(0, 6).Draw(t, "wrap") {
			case 0:
				return "(0," + e + ")", true
			case 1:
				return "(true?" + e + ":1)", true
			case 2:
				return "(1&&" + e + ")", true
			case 3:
				return "(null??" + e + ")", true
			case 4:
				return "(0||" + e + ")", true
			case 5:
				return "[" + e + "][0]", true
			default:
				return "(function(a){return a})(" + e + ")", true
			}
		case 10:
			if isUint32(v) && v < two(32)-1 {
				return "(function(){var a=[];a.length=" + g.numOrStr(v, d-1) + ";return a.length})()", true
			}
		case 11:
			e := g.gen(v, d-1)
			return g.pick2("Math.max.apply(null,["+e+"])", "[1,"+e+"].pop()", "Array.of("+e+")[0]", "[0,"+e+"].reduce(function(a,b){return b})", "["+e+"].map(function(x){return x})[0]", "Object.values({a:"+e+"})[0]", "[..."+"["+e+"]][0]"), true
		default:
			if isInt(v) && v >= 0 && v <= 9 && !negZero(v) {
				return "(" + jsx.StrLitGo(strconv.Itoa(int(v)), true) + g.pick2("*1", "-0", "|0", ">>>0", "/1") + ")", true
			}
		}
		return "", false
	}
	return "", false
}

func (g *genCtx) numOrStrNoStr(v float64, d int) string { return g.gen(v, d) }

// for '+', at most one side may be a string-producing expression (otherwise it concatenates): use numbers only.
func (g *genCtx) numOrStrNoStrBoth(a, b float64, d int, op string) string {
	return g.gen(a, d) + " " + op + " " + g.gen(b, d)
}

func (g *genCtx) pick2(vals ...string) string {
	return vals[rapid.IntRange(0, len(vals)-1).Draw(g.t, "pick2")]
}

func (g *genCtx) junk() string {
	return g.pick2("", "", "x", " 1", "px", ",5", "e", "e+", "_1", "n", " z")
}
func (g *genCtx) junkRadix(r int) string {
	return g.pick2("", "", "~", " 1", "!z", ".5", "_1")
}
func (g *genCtx) padLeft(s string) (string, bool) {
	n := rapid.IntRange(0, 2).Draw(g.t, "wsl")
	var l []rune
	na := false
	for i := 0; i < n; i++ {
		c := wsPool[rapid.IntRange(0, len(wsPool)-1).Draw(g.t, "ws")]
		if c >= 0x80 {
			na = true
		}
		l = append(l, c)
	}
	return string(l) + s, na
}
func (g *genCtx) strExprPF(v float64) string {
	s := "Infinity"
	if v < 0 {
		s = "-Infinity"
	}
	s, _ = g.padLeft(s)
	return jsx.StrLitGo(s+g.pick2("", "x", "y1", " "), false)
}

var prodKinds = []string{"lit", "neg", "plusstr", "add", "sub", "mul", "div", "mod", "update", "update", "bit", "bit", "math", "math", "parse", "typed", "goval", "misc", "misc"}

func (g *genCtx) gen(v float64, d int) string {
	if d <= 0 {
		s, _ := g.producer("lit", v, 0)
		return s
	}
	for try := 0; try < 4; try++ {
		k := prodKinds[rapid.IntRange(0, len(prodKinds)-1).Draw(g.t, "prod")]
		if s, ok := g.producer(k, v, d); ok {
			g.prods[k]++
			if d == g.maxDepth() {
				g.top = k
			}
			return s
		}
	}
	s, _ := g.producer("lit", v, 0)
	if d == g.maxDepth() {
		g.top = "lit"
	}
	return s
}

func (g *genCtx) maxDepth() int { return g.depth }
