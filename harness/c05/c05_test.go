package c05

import (
	"encoding/json"
	"fmt"
	"math"
	"os"
	"strconv"
	"strings"
	"testing"

	"github.com/dop251/goja"
	"pgregory.net/rapid"

	"verifh/internal/evid"
	"verifh/internal/jsx"
	"verifh/internal/numref"
)

func TestMain(m *testing.M) { evid.Main("C05", m) }

const obsSrc = `
var arr10 = ["e0","e1","e2","e3","e4","e5","e6","e7","e8","e9"];
function obs(A,B){
  var r=[];
  r.push(Object.is(A,B)); r.push(Object.is(B,A)); r.push(A===B); r.push(B===A); r.push(A==B);
  var sw; switch(A){case B: sw=true; break; default: sw=false}; r.push(sw);
  r.push(new Map([[A,1]]).get(B)===1); r.push(new Set([A]).has(B));
  r.push([A].includes(B)); r.push([A].indexOf(B)); r.push([A].lastIndexOf(B));
  var o={}; o[A]=1; r.push(o[B]===1); r.push(Object.keys(o)[0]);
  r.push(String(A)===String(B)); r.push(String(A));
  r.push(Object.is(1/A,1/B)); r.push(typeof A + typeof B); r.push(String(JSON.stringify(A)));
  r.push(A<B); r.push(A<=B); r.push(A>B); r.push(A>=B);
  r.push(Object.is(-A,-B)); r.push(Object.is(A*1,B));
  r.push(` + "`${A}`" + `===""+B);
  var m=new Map(); m.set(A,1); m.set(B,2); r.push(m.size*10+m.get(A));
  r.push(new Set([A,B]).size);
  r.push(Object.is(new Float64Array([A])[0],B));
  r.push([B,A].indexOf(A));
  r.push(String(arr10[A])); r.push("abcdefghij".charAt(A));
  r.push(A|0); r.push(A>>>0);
  r.push(Object.is(Math.max(A,B),A) && Object.is(Math.min(A,B),B));
  r.push(A.toString()===String(B));
  r.push(Object.is(A%7,B%7));
  r.push(A in arr10);
  r.push(Number.isInteger(A)); r.push(Number.isSafeInteger(B));
  var q=[]; q[A]=1; r.push(q.length);
  var u8=new Uint8Array(4); u8[A]=7; r.push(String(u8[B]));
  r.push(new Map([[B,1]]).has(A));
  var o2={}; o2[B]=2; r.push(Object.prototype.hasOwnProperty.call(o2,A));
  r.push([{},A,{}].indexOf(B,0));
  r.push([A,A].lastIndexOf(B));
  return r;
}
`

var obsNames = []string{"Object.is(A,B)", "Object.is(B,A)", "A===B", "B===A", "A==B", "switch", "Map.get", "Set.has", "includes", "indexOf", "lastIndexOf",
	"o[A]/o[B]", "keys(o)[0]", "String(A)===String(B)", "String(A)", "Object.is(1/A,1/B)", "typeof", "JSON.stringify(A)", "A<B", "A<=B", "A>B", "A>=B",
	"Object.is(-A,-B)", "Object.is(A*1,B)", "template", "Map set/set", "Set size", "Float64Array", "[B,A].indexOf(A)", "arr10[A]", "charAt(A)", "A|0", "A>>>0",
	"max/min", "toString", "A%7", "A in arr10", "isInteger(A)", "isSafeInteger(B)", "q[A]=1;length", "u8[A]=7;u8[B]", "Map.has", "hasOwnProperty", "[{},A,{}].indexOf(B)", "[A,A].lastIndexOf(B)"}

var obsPrg = goja.MustCompile("obs.js", obsSrc, false)

func expectedObs(v float64) []interface{} {
	nan := math.IsNaN(v)
	str := jsx.NumberToString(v)
	jsonS := str
	if nan || math.IsInf(v, 0) {
		jsonS = "null"
	}
	idxOf := int64(0)
	if nan {
		idxOf = -1
	}
	arr10 := "undefined"
	if isInt(v) && v >= 0 && v <= 9 {
		arr10 = "e" + strconv.Itoa(int(v))
	}
	charAt := ""
	ti := numref.ToIntegerOrInfinity(v)
	if ti >= 0 && ti <= 9 {
		charAt = string(rune('a' + int(ti)))
	}
	qlen := int64(0)
	if isInt(v) && v >= 0 && v < two(32)-1 {
		qlen = int64(v) + 1
	}
	u8 := "undefined"
	if isInt(v) && v >= 0 && v <= 3 {
		u8 = "7"
	}
	mid := int64(1)
	last := int64(1)
	if nan {
		mid, last = -1, -1
	}
	return []interface{}{true, true, !nan, !nan, !nan, !nan, true, true, true, idxOf, idxOf,
		true, str, true, str, true, "numbernumber", jsonS, false, !nan, false, !nan,
		true, true, true, int64(12), int64(1), true, idxOf, arr10, charAt, int64(numref.ToInt32(v)), int64(numref.ToUint32(v)),
		true, true, true, isInt(v) && v >= 0 && v <= 9, isInt(v), isInt(v) && math.Abs(v) <= numref.MaxSafe, qlen, u8, true, true, mid, last}
}

type PairCase struct {
	VBits  string  `json:"v_bits"`
	V      string  `json:"v"`
	A      string  `json:"a"`
	B      string  `json:"b"`
	GoVals []GoVal `json:"go_vals"`
}

func bindGoVals(vm *goja.Runtime, gv []GoVal) error {
	for _, g := range gv {
		var x interface{}
		switch g.Type {
		case "string":
			x = g.Repr
		case "float64":
			f, err := strconv.ParseFloat(g.Repr, 64)
			if err != nil {
				return err
			}
			x = f
		case "float32":
			f, err := strconv.ParseFloat(g.Repr, 64)
			if err != nil {
				return err
			}
			x = float32(f)
		default:
			if strings.HasPrefix(g.Type, "uint") {
				u, err := strconv.ParseUint(g.Repr, 10, 64)
				if err != nil {
					return err
				}
				switch g.Type {
				case "uint":
					x = uint(u)
				case "uint8":
					x = uint8(u)
				case "uint16":
					x = uint16(u)
				case "uint32":
					x = uint32(u)
				case "uint64":
					x = u
				}
			} else {
				i, err := strconv.ParseInt(g.Repr, 10, 64)
				if err != nil {
					return err
				}
				switch g.Type {
				case "int":
					x = int(i)
				case "int8":
					x = int8(i)
				case "int16":
					x = int16(i)
				case "int32":
					x = int32(i)
				case "int64":
					x = i
				}
			}
		}
		if x == nil {
			return fmt.Errorf("bad go val %+v", g)
		}
		vm.Set(g.Name, x)
	}
	return nil
}

func normExport(x interface{}) interface{} {
	switch n := x.(type) {
	case int64:
		return n
	case float64:
		return n
	case int:
		return int64(n)
	}
	return x
}

func numOf(x interface{}) (float64, string, bool) {
	switch n := x.(type) {
	case int64:
		return float64(n), "int64", true
	case float64:
		return n, "float64", true
	}
	return 0, fmt.Sprintf("%T", x), false
}

func judgePair(c *PairCase) *evid.Failure {
	bits, err := strconv.ParseUint(c.VBits, 16, 64)
	if err != nil {
		return &evid.Failure{Check: "pairs", Key: "harness", Msg: "bad case: " + err.Error(), Case: c}
	}
	v := math.Float64frombits(bits)
	vm := goja.New()
	if err := bindGoVals(vm, c.GoVals); err != nil {
		return &evid.Failure{Check: "pairs", Key: "harness", Msg: "bad case: " + err.Error(), Case: c}
	}
	if o := jsx.RunProgram(vm, obsPrg); o.Kind != "value" {
		return &evid.Failure{Check: "pairs", Key: "harness", Msg: "prelude failed: " + o.Text, Case: c}
	}
	src := "(function(){ var A = " + c.A + "; var B = " + c.B + "; return [A, B, obs(A,B)]; })()"
	o := jsx.RunString(vm, src)
	if o.Kind != "value" {
		return &evid.Failure{Check: "pairs", Key: "outcome:" + o.Kind, Msg: "script did not complete: " + o.Text + "\n" + src, Case: c}
	}
	res, ok := o.Value.Export().([]interface{})
	if !ok || len(res) != 3 {
		return &evid.Failure{Check: "pairs", Key: "harness", Msg: "unexpected result shape", Case: c}
	}
	av, at, aok := numOf(res[0])
	bv, bt, bok := numOf(res[1])
	if !aok || !bok {
		return &evid.Failure{Check: "pairs", Key: "nonnumber", Msg: fmt.Sprintf("producer did not yield a number: A %s B %s", at, bt), Case: c}
	}
	if !sv(av, v) {
		return &evid.Failure{Check: "pairs", Key: "value:" + keyOf(c.A), Msg: fmt.Sprintf("A = %s evaluated to %v, oracle says %v", c.A, fmtF(av), fmtF(v)), Case: c, Expected: fmtF(v), Observed: fmtF(av)}
	}
	if !sv(bv, v) {
		return &evid.Failure{Check: "pairs", Key: "value:" + keyOf(c.B), Msg: fmt.Sprintf("B = %s evaluated to %v, oracle says %v", c.B, fmtF(bv), fmtF(v)), Case: c, Expected: fmtF(v), Observed: fmtF(bv)}
	}
	obsv, _ := res[2].([]interface{})
	exp := expectedObs(v)
	if len(obsv) != len(exp) {
		return &evid.Failure{Check: "pairs", Key: "harness", Msg: fmt.Sprintf("observer count %d != %d", len(obsv), len(exp)), Case: c}
	}
	for i := range exp {
		got := normExport(obsv[i])
		want := exp[i]
		same := got == want
		if gf, ok := got.(float64); ok {
			if wi, ok := want.(int64); ok {
				same = gf == float64(wi)
			}
		}
		if !same {
			return &evid.Failure{Check: "pairs", Key: "observer:" + obsNames[i], Msg: fmt.Sprintf("observer %s gave %v, spec says %v, for equal numbers A=%s B=%s (value %s)", obsNames[i], got, want, c.A, c.B, fmtF(v)), Case: c, Expected: want, Observed: got}
		}
	}
	if at != bt {
		return &evid.Failure{Check: "pairs", Key: "exporttype", Msg: fmt.Sprintf("Export() type differs for equal numbers: A=%s exports %s, B=%s exports %s (value %s)", c.A, at, c.B, bt, fmtF(v)), Case: c}
	}
	return nil
}

func fmtF(f float64) string {
	if f == 0 && math.Signbit(f) {
		return "-0"
	}
	return strconv.FormatFloat(f, 'g', -1, 64)
}

// keyOf classifies an expression by its leading producer for known-finding matching.
func keyOf(expr string) string {
	e := strings.TrimLeft(expr, "(")
	for _, p := range []string{"Math.", "parseInt", "parseFloat", "Number(", "JSON.parse", "new ", "function", "Date.UTC"} {
		if strings.HasPrefix(e, p) {
			if p == "Math." {
				if i := strings.IndexByte(e, '('); i > 0 {
					return e[:i]
				}
			}
			return strings.TrimRight(p, "( ")
		}
	}
	return "expr"
}

func genPair(t *rapid.T) *PairCase {
	v := genTarget(t)
	depth := rapid.IntRange(1, 3).Draw(t, "depth")
	g := &genCtx{t: t, prods: map[string]int{}, depth: depth}
	a := g.gen(v, depth)
	topA := g.top
	var b string
	topB := "lit"
	if rapid.IntRange(0, 3).Draw(t, "blit") == 0 {
		b = jsx.NumLit(v)
	} else {
		g.top = ""
		b = g.gen(v, depth)
		topB = g.top
	}
	c := &PairCase{VBits: strconv.FormatUint(math.Float64bits(v), 16), V: fmtF(v), A: a, B: b, GoVals: g.goVals}
	for k, n := range g.prods {
		evid.CountN("producer:"+k, int64(n))
	}
	nontrivial := topA != topB && (topA != "lit" || topB != "lit")
	evid.Case(a+" | "+b, nontrivial)
	evid.Count("target:" + targetClass(v))
	evid.Sample("pair", c)
	return c
}

func targetClass(v float64) string {
	switch {
	case math.IsNaN(v):
		return "nan"
	case math.IsInf(v, 0):
		return "inf"
	case v == 0 && math.Signbit(v):
		return "-0"
	case v == 0:
		return "+0"
	case isInt(v) && math.Abs(v) < two(31):
		return "int32"
	case isInt(v) && math.Abs(v) <= two(53):
		return "int53"
	case isInt(v):
		return "bigint-valued"
	case math.Abs(v) < 2.2250738585072014e-308:
		return "subnormal"
	}
	return "fraction"
}

func TestQuickPairs(t *testing.T) {
	evid.Check(t, "pairs", 160000, 4, func(t *rapid.T) {
		c := genPair(t)
		evid.Judge(t, judgePair(c))
	})
}

func TestQuickConv(t *testing.T) {
	evid.Check(t, "conv", 160000, 4, func(t *rapid.T) {
		c := genConv(t)
		evid.Judge(t, judgeConv(c))
	})
}

func TestReplay(t *testing.T) {
	p := os.Getenv("VERIF_REPLAY")
	if p == "" {
		t.Skip("no VERIF_REPLAY")
	}
	check, raw, err := evid.LoadReplay(p)
	if err != nil {
		t.Fatal(err)
	}
	switch check {
	case "pairs":
		var c PairCase
		if err := json.Unmarshal(raw, &c); err != nil {
			t.Fatal(err)
		}
		evid.Direct(t, judgePair(&c))
	case "conv":
		var c ConvCase
		if err := json.Unmarshal(raw, &c); err != nil {
			t.Fatal(err)
		}
		evid.Direct(t, judgeConv(&c))
	default:
		t.Fatalf("unknown check %q", check)
	}
}
