package c05

import (
	"fmt"
	"math"
	"math/big"
	"strconv"
	"strings"

	"github.com/dop251/goja"
	"pgregory.net/rapid"

	"verifh/internal/evid"
	"verifh/internal/jsx"
	"verifh/internal/numref"
)

// ConvCase: one operand (a number or a numeric-looking string) pushed through
// one conversion site; the expectation is computed from ToNumber(operand).
type ConvCase struct {
	Operand string  `json:"operand"` // JS expression
	Kind    string  `json:"kind"`    // "number" | "string"
	Text    string  `json:"text"`    // for strings: the string content
	NBits   string  `json:"n_bits"`  // ToNumber(operand) per numref
	Op      string  `json:"op"`
	GoVals  []GoVal `json:"go_vals"`
}

type expectation struct {
	skip   string      // non-empty: excluded by construction, with reason
	throw  string      // constructor name expected
	val    interface{} // float64 | string | bool | nil(undefined)
	alt    interface{} // acceptable alternative (spec latitude)
	hasAlt bool
}

func num(f float64) expectation  { return expectation{val: f} }
func str(s string) expectation   { return expectation{val: s} }
func boolean(b bool) expectation { return expectation{val: b} }
func throws(n string) expectation {
	return expectation{throw: n}
}
func skip(why string) expectation { return expectation{skip: why} }

type convOp struct {
	name string
	tmpl func(x string, n float64) string
	exp  func(n float64, kind string) expectation
}

func simple(t string) func(string, float64) string {
	return func(x string, _ float64) string { return strings.ReplaceAll(t, "X", x) }
}

func jsRound(n float64) float64 {
	if math.IsNaN(n) || math.IsInf(n, 0) {
		return n
	}
	if n == math.Trunc(n) {
		return n
	}
	f := math.Floor(n)
	var r float64
	if n-f >= 0.5 {
		r = f + 1
	} else {
		r = f
	}
	if r == 0 && n < 0 {
		return math.Copysign(0, -1)
	}
	return r
}

func sliceFrom(items []string, from int) string { return strings.Join(items[from:], ",") }

var arr5 = []string{"10", "11", "12", "13", "14"}

func clampInt(f float64, lo, hi int) int {
	if f < float64(lo) {
		return lo
	}
	if f > float64(hi) {
		return hi
	}
	return int(f)
}

var typedKinds = []struct {
	name string
	conv func(float64) float64
}{
	{"Int8Array", func(n float64) float64 { return float64(numref.ToInt8(n)) }},
	{"Uint8Array", func(n float64) float64 { return float64(numref.ToUint8(n)) }},
	{"Uint8ClampedArray", func(n float64) float64 { return float64(numref.ToUint8Clamp(n)) }},
	{"Int16Array", func(n float64) float64 { return float64(numref.ToInt16(n)) }},
	{"Uint16Array", func(n float64) float64 { return float64(numref.ToUint16(n)) }},
	{"Int32Array", func(n float64) float64 { return float64(numref.ToInt32(n)) }},
	{"Uint32Array", func(n float64) float64 { return float64(numref.ToUint32(n)) }},
	{"Float32Array", numref.ToFloat32},
	{"Float64Array", func(n float64) float64 { return n }},
}

var convOps []convOp

func init() {
	add := func(name, tmpl string, exp func(n float64, kind string) expectation) {
		convOps = append(convOps, convOp{name, simple(tmpl), exp})
	}
	i32 := func(f func(int32) int32) func(float64, string) expectation {
		return func(n float64, _ string) expectation { return num(float64(f(numref.ToInt32(n)))) }
	}
	add("or0", "(X|0)", i32(func(i int32) int32 { return i }))
	add("ushr0", "(X>>>0)", func(n float64, _ string) expectation { return num(float64(numref.ToUint32(n))) })
	add("shl3", "(X<<3)", i32(func(i int32) int32 { return i << 3 }))
	add("shr1", "(X>>1)", i32(func(i int32) int32 { return i >> 1 }))
	add("ushr1", "(X>>>1)", func(n float64, _ string) expectation { return num(float64(numref.ToUint32(n) >> 1)) })
	add("not", "(~X)", i32(func(i int32) int32 { return ^i }))
	add("and", "(X&0xffff)", i32(func(i int32) int32 { return i & 0xffff }))
	add("xor", "(X^0x55)", i32(func(i int32) int32 { return i ^ 0x55 }))
	add("shiftcount", "(1<<X)", func(n float64, _ string) expectation { return num(float64(int32(1) << (numref.ToUint32(n) & 31))) })
	add("shiftcount2", "(-8>>>X)", func(n float64, _ string) expectation {
		return num(float64(uint32(0xfffffff8) >> (numref.ToUint32(n) & 31)))
	})
	for _, tk := range typedKinds {
		tk := tk
		e := func(n float64, _ string) expectation { return num(tk.conv(n)) }
		add("typed-ctor:"+tk.name, "new "+tk.name+"([X])[0]", e)
		add("typed-store:"+tk.name, "(function(){var a=new "+tk.name+"(2);a[1]=X;return a[1]})()", e)
		add("typed-fill:"+tk.name, "new "+tk.name+"(2).fill(X)[1]", e)
		add("typed-of:"+tk.name, tk.name+".of(X)[0]", e)
	}
	dv := []struct {
		n    string
		conv func(float64) float64
	}{
		{"Int8", func(n float64) float64 { return float64(numref.ToInt8(n)) }},
		{"Uint8", func(n float64) float64 { return float64(numref.ToUint8(n)) }},
		{"Int16", func(n float64) float64 { return float64(numref.ToInt16(n)) }},
		{"Uint16", func(n float64) float64 { return float64(numref.ToUint16(n)) }},
		{"Int32", func(n float64) float64 { return float64(numref.ToInt32(n)) }},
		{"Uint32", func(n float64) float64 { return float64(numref.ToUint32(n)) }},
		{"Float32", numref.ToFloat32},
		{"Float64", func(n float64) float64 { return n }},
	}
	for _, d := range dv {
		d := d
		add("dataview:"+d.n, "(function(){var v=new DataView(new ArrayBuffer(9));v.set"+d.n+"(1,X,true);return v.get"+d.n+"(1,true)})()",
			func(n float64, _ string) expectation { return num(d.conv(n)) })
	}
	id := func(n float64, _ string) expectation { return num(n) }
	add("plus", "(+X)", id)
	add("neg", "(-X)", func(n float64, _ string) expectation { return num(-n) })
	add("Number", "Number(X)", id)
	add("mul1", "(X*1)", id)
	add("div1", "(X/1)", id)
	add("sub0", "(X-0)", id)
	add("abs", "Math.abs(X)", func(n float64, _ string) expectation { return num(math.Abs(n)) })
	add("floor", "Math.floor(X)", func(n float64, _ string) expectation { return num(math.Floor(n)) })
	add("ceil", "Math.ceil(X)", func(n float64, _ string) expectation { return num(math.Ceil(n)) })
	add("trunc", "Math.trunc(X)", func(n float64, _ string) expectation { return num(math.Trunc(n)) })
	add("round", "Math.round(X)", func(n float64, _ string) expectation { return num(jsRound(n)) })
	add("sign", "Math.sign(X)", func(n float64, _ string) expectation {
		switch {
		case math.IsNaN(n) || n == 0:
			return num(n)
		case n > 0:
			return num(1)
		}
		return num(-1)
	})
	add("fround", "Math.fround(X)", func(n float64, _ string) expectation { return num(numref.ToFloat32(n)) })
	add("sqrt", "Math.sqrt(X)", func(n float64, _ string) expectation { return num(math.Sqrt(n)) })
	add("isNaN", "isNaN(X)", func(n float64, _ string) expectation { return boolean(math.IsNaN(n)) })
	add("isFinite", "isFinite(X)", func(n float64, _ string) expectation { return boolean(!math.IsNaN(n) && !math.IsInf(n, 0)) })
	add("Number.isInteger", "Number.isInteger(X)", func(n float64, k string) expectation { return boolean(k == "number" && isInt(n)) })
	add("max1", "Math.max(X)", id)
	add("min2", "Math.min(X,Infinity)", id)
	add("imul", "Math.imul(X,3)", i32(func(i int32) int32 { return i * 3 }))
	add("clz32", "Math.clz32(X)", func(n float64, _ string) expectation {
		u := numref.ToUint32(n)
		c := 0
		for c < 32 && u&(1<<(31-uint(c))) == 0 {
			c++
		}
		return num(float64(c))
	})
	add("postinc", "(function(){var y=X;y++;return y})()", func(n float64, _ string) expectation { return num(n + 1) })
	add("predec", "(function(){var y=X;return --y})()", func(n float64, _ string) expectation { return num(n - 1) })
	add("postinc-old", "(function(){var y=X;return y++})()", id)
	add("postdec-prop", "(function(){var o={p:X};o.p--;return o.p})()", func(n float64, _ string) expectation { return num(n - 1) })
	add("negvar", "(function(){var y=X;return -y})()", func(n float64, _ string) expectation { return num(-n) })
	add("submul", "(function(){var y=X;y*=2;return y})()", func(n float64, _ string) expectation { return num(n * 2) })
	convOps = append(convOps, convOp{"looseEq", func(x string, n float64) string { return "(" + x + "==" + jsx.NumLit(n) + ")" },
		func(n float64, _ string) expectation { return boolean(!math.IsNaN(n)) }})
	convOps = append(convOps, convOp{"looseEqRev", func(x string, n float64) string { return "(" + jsx.NumLit(n) + "==" + x + ")" },
		func(n float64, _ string) expectation { return boolean(!math.IsNaN(n)) }})
	convOps = append(convOps, convOp{"less", func(x string, n float64) string { return "(" + x + "<" + jsx.NumLit(n) + ")" },
		func(n float64, _ string) expectation { return boolean(false) }})
	convOps = append(convOps, convOp{"lessEq", func(x string, n float64) string { return "(" + x + "<=" + jsx.NumLit(n) + ")" },
		func(n float64, _ string) expectation { return boolean(!math.IsNaN(n)) }})

	// ToIntegerOrInfinity / relative index users
	add("array.slice", "[10,11,12,13,14].slice(X).join()", func(n float64, _ string) expectation { return str(sliceFrom(arr5, numref.RelIndex(n, 5))) })
	add("array.slice-end", "[10,11,12,13,14].slice(0,X).join()", func(n float64, _ string) expectation {
		return str(strings.Join(arr5[:numref.RelIndex(n, 5)], ","))
	})
	add("string.slice", `"abcde".slice(X)`, func(n float64, _ string) expectation { return str("abcde"[numref.RelIndex(n, 5):]) })
	add("string.substring", `"abcde".substring(X)`, func(n float64, _ string) expectation {
		return str("abcde"[clampInt(numref.ToIntegerOrInfinity(n), 0, 5):])
	})
	add("string.substr", `"abcde".substr(X)`, func(n float64, _ string) expectation { return str("abcde"[numref.RelIndex(n, 5):]) })
	add("string.charAt", `"abcde".charAt(X)`, func(n float64, _ string) expectation {
		i := numref.ToIntegerOrInfinity(n)
		if i < 0 || i >= 5 {
			return str("")
		}
		return str("abcde"[int(i) : int(i)+1])
	})
	add("string.charCodeAt", `"abcde".charCodeAt(X)`, func(n float64, _ string) expectation {
		i := numref.ToIntegerOrInfinity(n)
		if i < 0 || i >= 5 {
			return num(math.NaN())
		}
		return num(float64("abcde"[int(i)]))
	})
	add("string.codePointAt", `String("abcde".codePointAt(X))`, func(n float64, _ string) expectation {
		i := numref.ToIntegerOrInfinity(n)
		if i < 0 || i >= 5 {
			return str("undefined")
		}
		return str(strconv.Itoa(int("abcde"[int(i)])))
	})
	at := func(items []string) func(float64, string) expectation {
		return func(n float64, _ string) expectation {
			i := numref.ToIntegerOrInfinity(n)
			if i < 0 {
				i += float64(len(items))
			}
			if i < 0 || i >= float64(len(items)) {
				return str("undefined")
			}
			return str(items[int(i)])
		}
	}
	add("string.at", `String("abcde".at(X))`, at([]string{"a", "b", "c", "d", "e"}))
	add("array.at", `String([10,11,12,13,14].at(X))`, at(arr5))
	add("string.indexOf", `"abcabc".indexOf("c",X)`, func(n float64, _ string) expectation {
		p := clampInt(numref.ToIntegerOrInfinity(n), 0, 6)
		return num(float64(idxFrom("abcabc", "c", p)))
	})
	add("string.includes", `"abcabc".includes("c",X)`, func(n float64, _ string) expectation {
		p := clampInt(numref.ToIntegerOrInfinity(n), 0, 6)
		return boolean(idxFrom("abcabc", "c", p) >= 0)
	})
	add("string.startsWith", `"abcabc".startsWith("abc",X)`, func(n float64, _ string) expectation {
		p := clampInt(numref.ToIntegerOrInfinity(n), 0, 6)
		return boolean(strings.HasPrefix("abcabc"[p:], "abc"))
	})
	add("string.lastIndexOf", `"abcabc".lastIndexOf("c",X)`, func(n float64, _ string) expectation {
		pos := math.Inf(1)
		if !math.IsNaN(n) {
			pos = numref.ToIntegerOrInfinity(n)
		}
		p := clampInt(pos, 0, 6)
		// largest k <= p with s[k]=='c'
		for k := p; k >= 0; k-- {
			if k < 6 && "abcabc"[k] == 'c' {
				return num(float64(k))
			}
		}
		return num(-1)
	})
	add("array.indexOf", "[10,11,12,10,11,12].indexOf(12,X)", func(n float64, _ string) expectation {
		k := numref.RelIndex(n, 6)
		for ; k < 6; k++ {
			if k%3 == 2 {
				return num(float64(k))
			}
		}
		return num(-1)
	})
	add("array.includes", "[10,11,12,10,11,12].includes(11,X)", func(n float64, _ string) expectation {
		k := numref.RelIndex(n, 6)
		for ; k < 6; k++ {
			if k%3 == 1 {
				return boolean(true)
			}
		}
		return boolean(false)
	})
	add("array.lastIndexOf", "[10,11,12,10,11,12].lastIndexOf(10,X)", func(n float64, _ string) expectation {
		i := numref.ToIntegerOrInfinity(n)
		var k float64
		if i >= 0 {
			k = math.Min(i, 5)
		} else {
			k = 6 + i
		}
		for ; k >= 0; k-- {
			if int(k)%3 == 0 {
				return num(k)
			}
		}
		return num(-1)
	})
	add("array.fill", "[1,1,1,1,1].fill(0,X).join()", func(n float64, _ string) expectation {
		k := numref.RelIndex(n, 5)
		return str(strings.TrimSuffix(strings.Repeat("1,", k)+strings.Repeat("0,", 5-k), ","))
	})
	add("array.copyWithin", "[1,2,3,4,5].copyWithin(0,X).join()", func(n float64, _ string) expectation {
		k := numref.RelIndex(n, 5)
		a := []int{1, 2, 3, 4, 5}
		copy(a, a[k:])
		return str(strings.Trim(strings.Join(strings.Fields(fmt.Sprint(a)), ","), "[]"))
	})
	add("array.splice", "[10,11,12,13,14].splice(X).join()", func(n float64, _ string) expectation { return str(sliceFrom(arr5, numref.RelIndex(n, 5))) })
	add("array.flat", "[1,[2,[3,[4]]]].flat(X).length", func(n float64, _ string) expectation {
		d := numref.ToIntegerOrInfinity(n)
		switch {
		case d < 1:
			return num(2)
		case d < 2:
			return num(3)
		case d < 3:
			return num(4)
		}
		return num(4)
	})
	add("typed.subarray", "new Uint8Array([10,11,12,13,14]).subarray(X).join()", func(n float64, _ string) expectation { return str(sliceFrom(arr5, numref.RelIndex(n, 5))) })
	add("typed.slice", "new Uint8Array([10,11,12,13,14]).slice(X).join()", func(n float64, _ string) expectation { return str(sliceFrom(arr5, numref.RelIndex(n, 5))) })
	add("typed.at", "String(new Uint8Array([10,11,12,13,14]).at(X))", at(arr5))
	add("arraybuffer.slice", "new Uint8Array(new Uint8Array([10,11,12,13,14]).buffer.slice(X)).join()", func(n float64, _ string) expectation { return str(sliceFrom(arr5, numref.RelIndex(n, 5))) })
	add("string.repeat", `"ab".repeat(X).length`, func(n float64, _ string) expectation {
		i := numref.ToIntegerOrInfinity(n)
		if i < 0 || math.IsInf(i, 1) {
			return throws("RangeError")
		}
		if i > 1000 {
			return skip("repeat count > 1000")
		}
		return num(2 * i)
	})
	add("string.padStart", `"ab".padStart(X,"*").length`, func(n float64, _ string) expectation {
		l := numref.ToLength(n)
		if l > 1000 {
			return skip("pad length > 1000")
		}
		if l < 2 {
			l = 2
		}
		return num(l)
	})
	digitsOp := func(lo, hi float64) func(float64, string) expectation {
		return func(n float64, _ string) expectation {
			i := numref.ToIntegerOrInfinity(n)
			if i < lo || i > hi {
				return throws("RangeError")
			}
			return expectation{val: "ok"}
		}
	}
	add("toFixed", `((1.5).toFixed(X),"ok")`, digitsOp(0, 100))
	add("toExponential", `((1.5).toExponential(X),"ok")`, digitsOp(0, 100))
	add("toPrecision", `((1.5).toPrecision(X),"ok")`, digitsOp(1, 100))
	add("toString-radix", `((255).toString(X),"ok")`, digitsOp(2, 36))
	add("fromCharCode", "String.fromCharCode(X).charCodeAt(0)", func(n float64, _ string) expectation { return num(float64(numref.ToUint16(n))) })
	add("fromCodePoint", "String.fromCodePoint(X).codePointAt(0)", func(n float64, _ string) expectation {
		if !isInt(n) || n < 0 || n > 0x10FFFF {
			return throws("RangeError")
		}
		return num(math.Abs(n))
	})
	add("new Array", "new Array(X).length", func(n float64, k string) expectation {
		if k == "string" {
			return num(1)
		}
		if float64(numref.ToUint32(n)) != n {
			return throws("RangeError")
		}
		return num(float64(numref.ToUint32(n)))
	})
	add("array.length=", "(function(){var a=[1,2,3];a.length=X;return a.length})()", func(n float64, _ string) expectation {
		if float64(numref.ToUint32(n)) != n {
			return throws("RangeError")
		}
		return num(float64(numref.ToUint32(n)))
	})
	toIndexAlloc := func(n float64, _ string) expectation {
		i, ok := numref.ToIndex(n)
		if !ok {
			return throws("RangeError")
		}
		if i > 100000 {
			return skip("allocation size > 1e5")
		}
		return num(i)
	}
	add("new ArrayBuffer", "new ArrayBuffer(X).byteLength", toIndexAlloc)
	add("new Uint8Array", "new Uint8Array(X).length", toIndexAlloc)
	add("dataview.getInt8", "new DataView(new ArrayBuffer(8)).getInt8(X)", func(n float64, _ string) expectation {
		i, ok := numref.ToIndex(n)
		if !ok || i+1 > 8 {
			return throws("RangeError")
		}
		return num(0)
	})
	add("dataview.offset", "new DataView(new ArrayBuffer(8),X).byteLength", func(n float64, _ string) expectation {
		i, ok := numref.ToIndex(n)
		if !ok || i > 8 {
			return throws("RangeError")
		}
		return num(8 - i)
	})
	add("array-index-key", `String(["e0","e1","e2","e3","e4"][X])`, func(n float64, k string) expectation {
		if k == "string" {
			return skip("string keys are not converted")
		}
		if isInt(n) && n >= 0 && n <= 4 {
			return str("e" + strconv.Itoa(int(n)))
		}
		return str("undefined")
	})
	add("date.setMilliseconds", "new Date(0).setUTCMilliseconds(X)", func(n float64, _ string) expectation {
		i := numref.ToIntegerOrInfinity(n)
		if math.IsNaN(n) || math.IsInf(i, 0) || math.Abs(i) > 8.64e15 {
			return num(math.NaN())
		}
		return num(i + 0)
	})
	add("new Date", "new Date(X*1).getTime()", func(n float64, _ string) expectation {
		if math.IsNaN(n) || math.IsInf(n, 0) || math.Abs(n) > 8.64e15 {
			return num(math.NaN())
		}
		return num(numref.ToIntegerOrInfinity(n))
	})
	for _, gt := range []string{"int8", "uint8", "int16", "uint16", "int32", "uint32", "int64", "uint64", "int", "uint", "float32", "float64"} {
		gt := gt
		convOps = append(convOps, convOp{"ExportTo:" + gt, func(x string, _ float64) string { return x }, func(n float64, _ string) expectation {
			switch gt {
			case "int8":
				return num(float64(numref.ToInt8(n)))
			case "uint8":
				return num(float64(numref.ToUint8(n)))
			case "int16":
				return num(float64(numref.ToInt16(n)))
			case "uint16":
				return num(float64(numref.ToUint16(n)))
			case "int32":
				return num(float64(numref.ToInt32(n)))
			case "uint32":
				return num(float64(numref.ToUint32(n)))
			case "float32":
				return num(numref.ToFloat32(n))
			case "float64":
				return num(n)
			}
			if math.Abs(n) >= two(63) {
				return skip("64-bit ExportTo beyond 2^63 is not specified")
			}
			if gt == "int64" || gt == "int" {
				return expectation{val: "i:" + strconv.FormatInt(numref.ToInt64(n), 10)}
			}
			return expectation{val: "u:" + strconv.FormatUint(numref.ToUint64(n), 10)}
		}})
	}
}

func idxFrom(s, sub string, from int) int {
	i := strings.Index(s[from:], sub)
	if i < 0 {
		return -1
	}
	return i + from
}

// ---- operand generation ----

var bigMagnitudes = []float64{two(63), two(63) + two(11), -two(63), -(two(63) + two(11)), two(64), two(64) + two(12), two(64) * 3, two(65) + two(32)*3, two(70) + two(40), 1e21, 1e30, -1e30, 1e300,
	two(53) + 2, -(two(53) + 2), two(62) + two(31), two(32)*5 + 7, two(40) + 255, -(two(40) + 129), 4294967295.5, -2147483648.5, 2147483647.5, 255.5, 254.5, 0.5, 1.5, 2.5, -0.5, 0.49999999999999994,
	two(84) + two(32), two(100), -two(100)}

func genOperandNumber(t *rapid.T) float64 {
	switch rapid.IntRange(0, 5).Draw(t, "ocl") {
	case 0, 1:
		return bigMagnitudes[rapid.IntRange(0, len(bigMagnitudes)-1).Draw(t, "bm")]
	case 2:
		// k * 2^e + small, exactly representable
		e := rapid.IntRange(31, 90).Draw(t, "e")
		m := float64(rapid.IntRange(1, 7).Draw(t, "m"))
		low := float64(rapid.IntRange(0, 4096).Draw(t, "low")) * two(maxInt(e-52, 0))
		f := m*two(e) + low
		if rapid.Bool().Draw(t, "negop") {
			f = -f
		}
		return f
	case 3:
		return float64(rapid.IntRange(-10, 10).Draw(t, "smallop")) + float64(rapid.IntRange(0, 3).Draw(t, "qf"))/4
	}
	return genTarget(t)
}

func maxInt(a, b int) int {
	if a > b {
		return a
	}
	return b
}

// genNumericText produces strings around the StringNumericLiteral grammar:
// mostly valid, sometimes just outside it.
func genNumericText(t *rapid.T) string {
	digits := func(label string, min, max int, alphabet string) string {
		n := rapid.IntRange(min, max).Draw(t, label)
		var sb strings.Builder
		for i := 0; i < n; i++ {
			sb.WriteByte(alphabet[rapid.IntRange(0, len(alphabet)-1).Draw(t, "dg")])
		}
		return sb.String()
	}
	var core string
	switch rapid.IntRange(0, 11).Draw(t, "ntform") {
	case 0:
		core = digits("nd", 1, 4, "0123456789")
	case 1:
		core = digits("nd", 1, 25, "0123456789")
	case 2:
		core = digits("nd", 0, 3, "0123456789") + "." + digits("nf", 0, 4, "0123456789")
	case 3:
		core = digits("nd", 1, 3, "0123456789") + rapid.SampledFrom([]string{"e", "E", "e+", "e-", "E-"}).Draw(t, "e") + digits("ne", 0, 3, "0123456789")
	case 4:
		core = rapid.SampledFrom([]string{"0x", "0X"}).Draw(t, "hx") + digits("nh", 0, 20, "0123456789abcdefABCDEF")
	case 5:
		core = rapid.SampledFrom([]string{"0b", "0B"}).Draw(t, "bx") + digits("nb", 0, 70, "01")
	case 6:
		core = rapid.SampledFrom([]string{"0o", "0O"}).Draw(t, "ox") + digits("no", 0, 30, "01234567")
	case 7:
		core = rapid.SampledFrom([]string{"Infinity", "infinity", "Inf", "INFINITY", "Infinityx", "NaN", "", "-", "+", ".", "e5", "1e", "0x", "1_0", "1n", "١٢", "１２", "0x1g", "0b12", "1 2", "0.0.1", "--1", "+-1", "0x-5", "-0x5", "+0x5", "0b-1", "1e1000", "-1e1000", "1e-1000", "00", "-00", "-0", "-0.0", "+0", "0e5", "-0e-5", "9223372036854775807", "9223372036854775808", "18446744073709551616", "-9223372036854775809", "0x8000000000000000", "0xffffffffffffffff", "0x10000000000000000", "0x1fffffffffffff", "0x20000000000001", "4294967296", "2147483648", "-2147483649", "1e21", "123e-20", "0.0000001", "5e-324", "2e-324", "1.7976931348623157e308", "1.7976931348623159e308"}).Draw(t, "special")
	case 8:
		core = digits("nd", 17, 40, "0123456789") + "." + digits("nf", 0, 10, "0123456789")
	case 9:
		core = "0x" + digits("nh", 14, 40, "0123456789abcdef")
	case 10:
		core = digits("nd", 1, 2, "123456789") + "e" + strconv.Itoa(rapid.IntRange(15, 40).Draw(t, "bige"))
	default:
		core = strconv.FormatFloat(genOperandNumber(t), 'g', -1, 64)
		core = strings.Replace(core, "+Inf", "Infinity", 1)
		core = strings.Replace(core, "-Inf", "-Infinity", 1)
		core = strings.Replace(core, "Inf", "Infinity", 1)
	}
	if rapid.IntRange(0, 3).Draw(t, "sign") == 0 {
		core = rapid.SampledFrom([]string{"-", "+"}).Draw(t, "sg") + core
	}
	if rapid.IntRange(0, 2).Draw(t, "padws") != 0 {
		n := rapid.IntRange(0, 2).Draw(t, "wl")
		m := rapid.IntRange(0, 2).Draw(t, "wr")
		var l, r []rune
		for i := 0; i < n; i++ {
			l = append(l, wsPool[rapid.IntRange(0, len(wsPool)-1).Draw(t, "ws")])
		}
		for i := 0; i < m; i++ {
			r = append(r, wsPool[rapid.IntRange(0, len(wsPool)-1).Draw(t, "ws")])
		}
		core = string(l) + core + string(r)
		if rs := []rune(core); rapid.IntRange(0, 9).Draw(t, "innerws") == 0 && len(rs) > 1 {
			k := rapid.IntRange(1, len(rs)-1).Draw(t, "wpos")
			core = string(rs[:k]) + " " + string(rs[k:])
		}
	}
	return core
}

func genConv(t *rapid.T) *ConvCase {
	c := &ConvCase{}
	var n float64
	if rapid.IntRange(0, 2).Draw(t, "opkind") == 0 {
		n = genOperandNumber(t)
		c.Kind = "number"
		c.Operand = jsx.NumLit(n)
		if rapid.IntRange(0, 4).Draw(t, "viaGo") == 0 {
			c.GoVals = []GoVal{{Name: "g0", Type: "float64", Repr: strconv.FormatFloat(n, 'g', -1, 64)}}
			c.Operand = "g0"
		}
	} else {
		txt := genNumericText(t)
		n = numref.StringToNumber(txt)
		c.Kind = "string"
		c.Text = txt
		switch rapid.IntRange(0, 3).Draw(t, "srep") {
		case 0:
			s := txt
			if rapid.Bool().Draw(t, "long") {
				for len(s) <= 16 {
					s = " " + s + "\n"
				}
			}
			c.GoVals = []GoVal{{Name: "g0", Type: "string", Repr: s}}
			c.Operand = "g0"
		case 1:
			c.Operand = jsx.StrLitGo(txt, false)
		case 2:
			// force UTF-16 storage then cut back
			c.Operand = "(" + jsx.StrLitGo(txt+"é", false) + ".slice(0,-1))"
		default:
			c.Operand = jsx.StrLitGo(txt, true)
		}
	}
	c.NBits = strconv.FormatUint(math.Float64bits(n), 16)
	op := convOps[rapid.IntRange(0, len(convOps)-1).Draw(t, "op")]
	c.Op = op.name
	nontrivial := math.Abs(n) >= two(31) || !isInt(n) || (c.Kind == "string" && strings.TrimSpace(c.Text) != jsx.NumberToString(n))
	evid.Case(c.Op+"|"+c.Operand+"|"+c.Text, nontrivial)
	evid.Count("conv-operand:" + c.Kind)
	evid.Count("conv-op:" + strings.SplitN(c.Op, ":", 2)[0])
	evid.Sample("conv", c)
	return c
}

func opByName(name string) *convOp {
	for i := range convOps {
		if convOps[i].name == name {
			return &convOps[i]
		}
	}
	return nil
}

func showVal(v goja.Value) interface{} {
	if v == nil || goja.IsUndefined(v) {
		return nil
	}
	switch x := v.Export().(type) {
	case int64:
		return float64(x)
	case float64:
		return x
	case string:
		return x
	case bool:
		return x
	default:
		return fmt.Sprintf("%T:%v", x, x)
	}
}

func sameExp(want, got interface{}) bool {
	wf, wok := want.(float64)
	gf, gok := got.(float64)
	if wok && gok {
		return sv(wf, gf)
	}
	return want == got
}

func showExp(x interface{}) string {
	if f, ok := x.(float64); ok {
		return fmtF(f)
	}
	return fmt.Sprintf("%#v", x)
}

func judgeConv(c *ConvCase) *evid.Failure {
	bits, err := strconv.ParseUint(c.NBits, 16, 64)
	if err != nil {
		return &evid.Failure{Check: "conv", Key: "harness", Msg: "bad case", Case: c}
	}
	n := math.Float64frombits(bits)
	op := opByName(c.Op)
	if op == nil {
		return &evid.Failure{Check: "conv", Key: "harness", Msg: "unknown op " + c.Op, Case: c}
	}
	exp := op.exp(n, c.Kind)
	if exp.skip != "" {
		evid.Excluded("conv:" + exp.skip)
		return nil
	}
	vm := goja.New()
	if err := bindGoVals(vm, c.GoVals); err != nil {
		return &evid.Failure{Check: "conv", Key: "harness", Msg: "bad case: " + err.Error(), Case: c}
	}
	src := op.tmpl(c.Operand, n)
	o := jsx.RunString(vm, src)
	key := "conv:" + c.Op + ":" + c.Kind
	var got interface{}
	switch o.Kind {
	case "value":
		if strings.HasPrefix(c.Op, "ExportTo:") {
			g, err := exportTo(vm, o.Value, strings.TrimPrefix(c.Op, "ExportTo:"))
			if err != nil {
				return &evid.Failure{Check: "conv", Key: key, Msg: fmt.Sprintf("ExportTo failed: %v (operand %s, ToNumber=%s)", err, c.Operand, fmtF(n)), Case: c}
			}
			got = g
		} else {
			got = showVal(o.Value)
		}
	case "exception":
		name := jsx.ExcName(vm, o.Err)
		if exp.throw != "" && name == exp.throw {
			return nil
		}
		return &evid.Failure{Check: "conv", Key: key, Msg: fmt.Sprintf("%s threw %s (%s); spec: %s (operand ToNumber=%s)", src, name, o.Text, describeExp(exp), fmtF(n)), Case: c, Expected: describeExp(exp), Observed: name}
	default:
		return &evid.Failure{Check: "conv", Key: "outcome:" + o.Kind, Msg: fmt.Sprintf("%s: %s", src, o.Text), Case: c}
	}
	if exp.throw != "" {
		return &evid.Failure{Check: "conv", Key: key, Msg: fmt.Sprintf("%s returned %s; spec: throws %s (operand ToNumber=%s)", src, showExp(got), exp.throw, fmtF(n)), Case: c, Expected: exp.throw, Observed: showExp(got)}
	}
	if !sameExp(exp.val, got) && !(exp.hasAlt && sameExp(exp.alt, got)) {
		return &evid.Failure{Check: "conv", Key: key, Msg: fmt.Sprintf("%s returned %s; spec: %s (operand ToNumber=%s)", src, showExp(got), showExp(exp.val), fmtF(n)), Case: c, Expected: showExp(exp.val), Observed: showExp(got)}
	}
	return nil
}

func describeExp(e expectation) string {
	if e.throw != "" {
		return "throws " + e.throw
	}
	return showExp(e.val)
}

func exportTo(vm *goja.Runtime, v goja.Value, typ string) (res interface{}, err error) {
	defer func() {
		if p := recover(); p != nil {
			err = fmt.Errorf("panic: %v", p)
		}
	}()
	switch typ {
	case "int8":
		var x int8
		err = vm.ExportTo(v, &x)
		res = float64(x)
	case "uint8":
		var x uint8
		err = vm.ExportTo(v, &x)
		res = float64(x)
	case "int16":
		var x int16
		err = vm.ExportTo(v, &x)
		res = float64(x)
	case "uint16":
		var x uint16
		err = vm.ExportTo(v, &x)
		res = float64(x)
	case "int32":
		var x int32
		err = vm.ExportTo(v, &x)
		res = float64(x)
	case "uint32":
		var x uint32
		err = vm.ExportTo(v, &x)
		res = float64(x)
	case "int64":
		var x int64
		err = vm.ExportTo(v, &x)
		res = "i:" + strconv.FormatInt(x, 10)
	case "int":
		var x int
		err = vm.ExportTo(v, &x)
		res = "i:" + strconv.FormatInt(int64(x), 10)
	case "uint64":
		var x uint64
		err = vm.ExportTo(v, &x)
		res = "u:" + strconv.FormatUint(x, 10)
	case "uint":
		var x uint
		err = vm.ExportTo(v, &x)
		res = "u:" + strconv.FormatUint(uint64(x), 10)
	case "float32":
		var x float32
		err = vm.ExportTo(v, &x)
		res = float64(x)
	case "float64":
		var x float64
		err = vm.ExportTo(v, &x)
		res = x
	default:
		err = fmt.Errorf("unknown type %s", typ)
	}
	return
}

var _ = big.NewInt
