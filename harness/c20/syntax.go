package c20

import (
	"fmt"
	"sort"
	"strconv"
	"strings"

	"github.com/dop251/goja"
	"pgregory.net/rapid"

	"verifh/internal/evid"
	"verifh/internal/jsx"
)

// SynCase: a pattern/flags pair whose validity is known by construction.
type SynCase struct {
	Pat     []uint16 `json:"pat"`
	PatText string   `json:"pat_text"`
	Base    []uint16 `json:"base"` // the valid generated pattern the breaker was attached to
	Flags   string   `json:"flags"`
	Valid   bool     `json:"valid"`
	Why     string   `json:"why"`     // which construction made it invalid ("" if valid)
	Literal bool     `json:"literal"` // literal forms are applicable
}

// breakers are suffixes (or prefixes, marked with ^) that make ANY balanced
// pattern a SyntaxError in every mode (ECMA-262 22.2.1 incl. Annex B.1.2).
var breakersAll = []struct{ why, text string }{
	{"unterminated-group", "("},
	{"unterminated-noncap", "(?:a"},
	{"unmatched-paren", ")"},
	{"unmatched-paren-prefix", "^)"},
	{"unterminated-class", "[a"},
	{"trailing-backslash", `\`},
	{"nothing-to-repeat-star", "^*"},
	{"nothing-to-repeat-plus", "^+"},
	{"nothing-to-repeat-q", "^?"},
	{"nothing-to-repeat-alt", "|*"},
	{"nothing-to-repeat-group", "(+)"},
	{"double-quantifier", "a**"},
	{"double-quantifier-plus", "a+*"},
	{"double-braced-quantifier", "a{1}{2}"},
	{"braced-quantifier-out-of-order", "a{2,1}"},
	{"class-range-out-of-order", "[b-a]"},
	{"class-range-out-of-order-esc", `[b-\x61]`},
	{"duplicate-group-name", "(?<dup>x)(?<dup>y)"},
	{"invalid-group-name-digit", "(?<1a>x)"},
	{"empty-group-name", "(?<>x)"},
	{"unterminated-group-name", "(?<ab"},
	{"invalid-group-specifier", "(?#x)"},
	{"quantified-lookbehind", "(?<=a)*"},
	{"quantified-neg-lookbehind", "(?<!a)+"},
	{"dangling-named-backreference", `(?<kk>x)\k<zz>`},
	{"incomplete-named-backreference", `(?<kq>x)\k`},
}

var breakersUnicode = []struct{ why, text string }{
	{"u-invalid-identity-escape", `\a`},
	{"u-invalid-identity-escape-dash", `\-`},
	{"u-lone-brace", "{"},
	{"u-lone-close-brace", "}"},
	{"u-lone-bracket", "]"},
	{"u-codepoint-out-of-range", `\u{110000}`},
	{"u-incomplete-unicode-escape", `\u12`},
	{"u-incomplete-hex-escape", `\x1`},
	{"u-dangling-backreference", `\9`},
	{"u-quantified-lookahead", "(?=a)*"},
	{"u-class-escape-in-range", `[\d-a]`},
	{"u-invalid-control-escape", `\c1`},
	{"u-octal-escape", `\07`},
	{"u-incomplete-quantifier", "a{1"},
}

func canonicalFlags(f string) string {
	b := []byte(f)
	sort.Slice(b, func(i, j int) bool { return strings.IndexByte("dgimsuvy", b[i]) < strings.IndexByte("dgimsuvy", b[j]) })
	return string(b)
}

func flagsValid(f string) bool {
	seen := map[rune]bool{}
	for _, c := range f {
		if !strings.ContainsRune("gimsuy", c) || seen[c] {
			return false
		}
		seen[c] = true
	}
	return true
}

func identFlags(f string) bool {
	for _, c := range f {
		if !(c >= 'a' && c <= 'z' || c >= 'A' && c <= 'Z' || c >= '0' && c <= '9' || c == '_' || c == '$') {
			return false
		}
	}
	return true
}

func genSyn(t *rapid.T) *SynCase {
	c := &SynCase{}
	kind := rapid.IntRange(0, 9).Draw(t, "synkind")
	// flags
	switch {
	case kind < 4: // invalid flags
		alpha := []byte("gimsuygimsuyuuxGIa1 -Uk")
		for {
			n := rapid.IntRange(1, 5).Draw(t, "nflags")
			b := make([]byte, n)
			for i := range b {
				b[i] = alpha[rapid.IntRange(0, len(alpha)-1).Draw(t, "flagch")]
			}
			c.Flags = string(b)
			if !flagsValid(c.Flags) {
				break
			}
			// valid by chance: duplicate one flag
			k := rapid.IntRange(0, n-1).Draw(t, "dup")
			c.Flags += string(b[k])
			break
		}
		c.Why = "flags"
		seen := map[rune]bool{}
		for _, ch := range c.Flags {
			if !strings.ContainsRune("gimsuy", ch) {
				c.Why = "flags-unknown"
				break
			}
			if seen[ch] {
				c.Why = "flags-duplicate-" + string(ch)
			}
			seen[ch] = true
		}
	default:
		c.Flags = genFlags(t)
	}
	u := strings.Contains(c.Flags, "u") && flagsValid(c.Flags)
	icase := strings.Contains(c.Flags, "i")
	g := &pgen{t: t, u: u, icase: icase, names: map[string]bool{}, budget: 8}
	ast := g.disj(rapid.IntRange(0, 2).Draw(t, "depth"))
	c.Pat = PrintPattern(ast, u)
	c.Base = append([]uint16{}, c.Pat...)
	c.Valid = kind >= 7
	if kind >= 4 && kind < 7 { // broken pattern
		br := breakersAll
		if u && rapid.Bool().Draw(t, "ubreak") {
			br = breakersUnicode
		}
		b := br[rapid.IntRange(0, len(br)-1).Draw(t, "breaker")]
		c.Why = b.why
		var units []uint16
		txt := b.text
		prefix := strings.HasPrefix(txt, "^")
		if prefix {
			txt = txt[1:]
		}
		for _, r := range txt {
			units = append(units, uint16(r))
		}
		if prefix {
			c.Pat = append(units, c.Pat...)
		} else {
			c.Pat = append(append([]uint16{}, c.Pat...), units...)
		}
	}
	c.PatText = unitsToDebug(c.Pat)
	c.Literal = !g.rawLT && len(c.Pat) > 0 && identFlags(c.Flags) && c.Why != "trailing-backslash" && c.Pat[0] != '*' && c.Pat[0] != '/'
	// a literal ending in an odd backslash would swallow the closing '/'; '*' first would open a comment
	return c
}

const synPrelude = `
function probe(f){
  try { f(); return "ok"; }
  catch (e) { return (e instanceof SyntaxError && e.name === "SyntaxError" && Object.getPrototypeOf(e) === SyntaxError.prototype) ? "SyntaxError" : "other:" + (e && e.name); }
}
function synRun(P, F, LIT){
  var r = {};
  r.ctor = probe(function(){ new RegExp(P, F); });
  r.call = probe(function(){ RegExp(P, F); });
  r.compile = probe(function(){ var re = /x/g; re.lastIndex = 1; re.compile(P, F); if (re.lastIndex !== 0) throw new Error("lastIndex not reset"); });
  r.fromRegExp = probe(function(){ new RegExp(/x/, F); });
  r.flags = probe(function(){ var re = new RegExp(P, F); if (re.flags !== FCANON) throw new Error("flags " + re.flags); });
  if (LIT !== null) {
    r.evalLit = probe(function(){ (0, eval)(LIT); });
    r.fnLit = probe(function(){ new Function("return " + LIT); });
    r.earlyLit = probe(function(){ (0, eval)("(function(){ return " + LIT + " })"); });
  }
  return JSON.stringify(r);
}
`

var synPrg = goja.MustCompile("c20syn.js", synPrelude, false)

func judgeSyn(c *SynCase) *evid.Failure {
	vm := goja.New()
	if o := jsx.RunProgram(vm, synPrg); o.Kind != "value" {
		return &evid.Failure{Check: "syntax", Key: "harness", Msg: "prelude failed: " + o.Text, Case: c}
	}
	lit := "null"
	var litUnits []uint16
	if c.Literal {
		litUnits = append(append([]uint16{'/'}, c.Pat...), '/')
		for _, f := range c.Flags {
			litUnits = append(litUnits, uint16(f))
		}
		lit = jsx.StrLit(litUnits, true)
	}
	src := "var FCANON = " + strconv.Quote(canonicalFlags(c.Flags)) + "; synRun(" + jsx.StrLit(c.Pat, true) + ", " + strconv.Quote(c.Flags) + ", " + lit + ")"
	o := jsx.RunString(vm, src)
	if o.Kind != "value" {
		return &evid.Failure{Check: "syntax", Key: "outcome:" + o.Kind, Msg: "probe script did not complete: " + o.Text, Case: c}
	}
	dump := o.Value.String()
	want := "SyntaxError"
	if c.Valid {
		want = "ok"
	}
	descr := fmt.Sprintf("pattern \"%s\" flags %q (constructed %s)", c.PatText, c.Flags, map[bool]string{true: "valid", false: "invalid: " + c.Why}[c.Valid])
	for _, k := range []string{"ctor", "call", "compile", "fromRegExp", "flags", "evalLit", "fnLit", "earlyLit"} {
		i := strings.Index(dump, `"`+k+`":"`)
		if i < 0 {
			continue
		}
		rest := dump[i+len(k)+4:]
		got := rest[:strings.IndexByte(rest, '"')]
		w := want
		if k == "fromRegExp" {
			// only the flags matter there
			if flagsValid(c.Flags) {
				w = "ok"
			} else {
				w = "SyntaxError"
			}
		}
		if k == "flags" && !c.Valid {
			continue
		}
		if got != w {
			why := c.Why
			if c.Valid {
				why = "valid"
			}
			return &evid.Failure{Check: "syntax", Key: synKey(k, why, baseEngine(c)),
				Msg: fmt.Sprintf("%s: %s gave %q, specification requires %q", descr, k, got, w), Case: c, Expected: w, Observed: got}
		}
	}
	// the same literal handed to RunString directly (script compile path)
	if c.Literal {
		vm2 := goja.New()
		o := jsx.RunString(vm2, string(utf16ToString(litUnits)))
		ok := o.Kind == "value"
		isSyn := o.Kind == "syntax" || o.Kind == "exception" && jsx.ExcName(vm2, o.Err) == "SyntaxError"
		if c.Valid && !ok || !c.Valid && !isSyn {
			why := c.Why
			if c.Valid {
				why = "valid"
			}
			return &evid.Failure{Check: "syntax", Key: synKey("runstring", why, baseEngine(c)),
				Msg: fmt.Sprintf("%s: RunString of the literal gave %s (%s), expected %s", descr, o.Kind, o.Text, want), Case: c}
		}
	}
	return nil
}

// synKey builds the failure key. Three input classes are known not to be
// rejected by goja (see known_findings.json); they get one key each,
// independent of the entry point, so that every other class keeps a key of its own.
func synKey(form, why string, baseEngine string) string {
	if why == "invalid-group-specifier" && baseEngine == "regexp2" {
		// the pattern was routed to regexp2 before the offending group was seen
		return "syntax:regexp2-accepts-dotnet-comment-group"
	}
	switch why {
	case "u-invalid-identity-escape", "u-invalid-identity-escape-dash", "u-lone-brace", "u-lone-close-brace", "u-lone-bracket",
		"u-incomplete-unicode-escape", "u-incomplete-hex-escape", "u-dangling-backreference", "u-quantified-lookahead",
		"u-class-escape-in-range", "u-invalid-control-escape", "u-octal-escape", "u-incomplete-quantifier":
		return "syntax:u-mode-only-errors-not-enforced"
	case "quantified-lookbehind", "quantified-neg-lookbehind":
		return "syntax:quantified-lookbehind-accepted"
	case "duplicate-group-name":
		return "syntax:duplicate-group-name-accepted"
	}
	return "syntax:" + form + ":" + why
}

// baseEngine reports which engine the unbroken base pattern is compiled to
// (used only to classify a failure, never for the verdict).
func baseEngine(c *SynCase) string {
	if !flagsValid(c.Flags) {
		return ""
	}
	vm := goja.New()
	o := jsx.RunString(vm, "new RegExp("+jsx.StrLit(c.Base, true)+","+strconv.Quote(c.Flags)+")")
	if o.Kind != "value" {
		return ""
	}
	e, _ := goja.VerifRegexpEngine(o.Value)
	return e
}

func utf16ToString(u []uint16) []rune {
	var r []rune
	for i := 0; i < len(u); i++ {
		c := rune(u[i])
		if isHigh(int(c)) && i+1 < len(u) && isLow(int(u[i+1])) {
			r = append(r, 0x10000+(c-0xD800)<<10+rune(u[i+1])-0xDC00)
			i++
			continue
		}
		r = append(r, c)
	}
	return r
}
