package c20

import (
	"fmt"
	"strings"

	"github.com/dlclark/regexp2/v2"
)

// This file calls the regexp2 dependency directly — without goja — with the
// pattern text, options and rune input goja hands to it, and compares the
// outcome with the specification model for every start position. It is used
// for ONE purpose: to recognise that a failing case lies in the input class
// "the dependency alone already deviates from ECMAScript on this
// pattern/subject" (a known finding that cannot be repaired inside goja), so
// that such cases are filed under one known key while every disagreement that
// is NOT reproducible in the library alone (i.e. goja's wrappers, position
// maps, fast paths, protocol code) keeps alarming under its own key.
// It can only mask, never create, a failure.

// regexp2Source renders the pattern as goja passes it to regexp2: astral
// characters of a non-u pattern as two \uXXXX escapes, lone surrogates as
// \uXXXX, surrogate-pair escapes of a u pattern as the character itself, and
// (after the worktree fix) \a \e \A \G \Z \z unescaped in non-u patterns.
func regexp2Source(pat []uint16, unicodeMode bool) string {
	var sb strings.Builder
	for i := 0; i < len(pat); i++ {
		c := int(pat[i])
		switch {
		case isHigh(c) && i+1 < len(pat) && isLow(int(pat[i+1])):
			if unicodeMode {
				sb.WriteRune(rune(0x10000 + (c-0xD800)<<10 + int(pat[i+1]) - 0xDC00))
			} else {
				fmt.Fprintf(&sb, `\u%04x\u%04x`, c, pat[i+1])
			}
			i++
		case isSurr(c):
			fmt.Fprintf(&sb, `\u%04x`, c)
		default:
			sb.WriteRune(rune(c))
		}
	}
	s := sb.String()
	if unicodeMode {
		// 😀 escape pairs denote one code point
		var out strings.Builder
		for i := 0; i < len(s); {
			if i+12 <= len(s) && s[i] == '\\' && s[i+1] == 'u' && s[i+6] == '\\' && s[i+7] == 'u' {
				var hi, lo int
				if _, err := fmt.Sscanf(s[i+2:i+6], "%x", &hi); err == nil {
					if _, err := fmt.Sscanf(s[i+8:i+12], "%x", &lo); err == nil && isHigh(hi) && isLow(lo) {
						out.WriteRune(rune(0x10000 + (hi-0xD800)<<10 + lo - 0xDC00))
						i += 12
						continue
					}
				}
			}
			if s[i] == '\\' && i+1 < len(s) {
				out.WriteByte(s[i])
				out.WriteByte(s[i+1])
				i += 2
				continue
			}
			out.WriteByte(s[i])
			i++
		}
		return out.String()
	}
	var out strings.Builder
	for i := 0; i < len(s); i++ {
		if s[i] == '\\' && i+1 < len(s) {
			if strings.IndexByte("aeAGZz", s[i+1]) < 0 {
				out.WriteByte('\\')
			}
			out.WriteByte(s[i+1])
			i++
			continue
		}
		out.WriteByte(s[i])
	}
	return out.String()
}

type libProbe struct {
	re    *regexp2.Regexp
	runes []rune
	offs  []int // UTF-16 offset of each rune; offs[len] = total
}

func newLibProbe(pat []uint16, flags string, subject []uint16) (lp *libProbe, err error) {
	defer func() {
		if p := recover(); p != nil {
			lp, err = nil, fmt.Errorf("regexp2 panic: %v", p)
		}
	}()
	u := strings.Contains(flags, "u")
	opts := regexp2.ECMAScript
	if strings.Contains(flags, "m") {
		opts |= regexp2.Multiline
	}
	if strings.Contains(flags, "s") {
		opts |= regexp2.Singleline
	}
	if strings.Contains(flags, "i") {
		opts |= regexp2.IgnoreCase
	}
	if u {
		opts |= regexp2.Unicode
	}
	re, err := regexp2.Compile(regexp2Source(pat, u), opts)
	if err != nil {
		return nil, err
	}
	lp = &libProbe{re: re}
	for i := 0; i < len(subject); i++ {
		c := rune(subject[i])
		lp.offs = append(lp.offs, i)
		if u && isHigh(int(c)) && i+1 < len(subject) && isLow(int(subject[i+1])) {
			c = 0x10000 + (c-0xD800)<<10 + rune(subject[i+1]) - 0xDC00
			i++
		}
		lp.runes = append(lp.runes, c)
	}
	lp.offs = append(lp.offs, len(subject))
	return lp, nil
}

// exec searches from rune index ri and returns capture offsets in UTF-16 units (like ModelResult.Caps).
func (lp *libProbe) exec(ri int, ncap int) (res ModelResult) {
	defer func() {
		if p := recover(); p != nil {
			res = ModelResult{}
		}
	}()
	m, err := lp.re.FindRunesMatchStartingAt(lp.runes, ri)
	if err != nil {
		return ModelResult{}
	}
	if m == nil {
		return ModelResult{Known: true}
	}
	gs := m.Groups()
	if len(gs) != ncap+1 {
		return ModelResult{}
	}
	caps := make([]int, 0, 2*len(gs))
	for _, g := range gs {
		if len(g.Captures) > 0 {
			caps = append(caps, lp.offs[g.RuneIndex], lp.offs[g.RuneIndex+g.RuneLength])
		} else {
			caps = append(caps, -1, -1)
		}
	}
	return ModelResult{Known: true, Match: true, Caps: caps}
}

func sameResult(a, b ModelResult) bool {
	if a.Match != b.Match || len(a.Caps) != len(b.Caps) {
		return false
	}
	for i := range a.Caps {
		if a.Caps[i] != b.Caps[i] {
			return false
		}
	}
	return true
}

// regexp2LibraryDeviates reports whether, for some start position, the
// regexp2 library alone gives a result (match extent or captures) different
// from the specification model, for the pattern p or its variant. example
// describes the first deviation.
func (c *Case) regexp2LibraryDeviates() (bool, string) {
	if c.AST == nil {
		return false, ""
	}
	u := c.has('u')
	ncap := len(c.Names)
	for vi, pat := range [][]uint16{c.Pat, c.VPat} {
		lp, err := newLibProbe(pat, c.Flags, c.Subject)
		if err != nil {
			return true, fmt.Sprintf("regexp2.Compile(%q) fails: %v", regexp2Source(pat, u), err)
		}
		for ri := 0; ri <= len(lp.runes); ri++ {
			mr := modelExec(c.AST, c.Flags, c.Subject, lp.offs[ri], false)
			if !mr.Known {
				continue
			}
			lr := lp.exec(ri, ncap)
			if !lr.Known {
				return true, fmt.Sprintf("regexp2 alone fails on %q from rune %d", regexp2Source(pat, u), ri)
			}
			if !sameResult(mr, lr) {
				return true, fmt.Sprintf("regexp2 alone (pattern %q%s, search from unit %d) returns %v, ECMAScript semantics give %v",
					regexp2Source(pat, u), map[int]string{0: "", 1: " [variant]"}[vi], lp.offs[ri], fmtRes(lr), fmtRes(mr))
			}
		}
	}
	return false, ""
}

func fmtRes(r ModelResult) string {
	if !r.Match {
		return "null"
	}
	return fmt.Sprint(r.Caps)
}
