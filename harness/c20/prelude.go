package c20

// preludeSrc defines, inside a fresh runtime, the observation functions (every
// string is dumped as hex of its UTF-16 code units so that lone surrogates
// survive serialisation) and reference implementations of the RegExp protocol
// methods written from ECMA-262 (2023) 22.2.6.8-14 and GetSubstitution
// (22.1.3.19.1) purely in terms of exec(). The global S is the subject.
const preludeSrc = `
"use strict";
var _exec0 = RegExp.prototype.exec;
function hx(s){
  if (s === undefined) return null;
  if (typeof s !== "string") return "?" + typeof s;
  var r = "";
  for (var i = 0; i < s.length; i++) r += ("0000" + s.charCodeAt(i).toString(16)).slice(-4);
  return "x" + r;
}
function li(re){ var v = re.lastIndex; return typeof v === "number" && isFinite(v) ? (Object.is(v, -0) ? "-0" : v) : typeof v + ":" + String(v); }
function dgroups(g){
  if (g === undefined) return null;
  if (g === null || typeof g !== "object") return "?" + typeof g;
  var ks = Object.keys(g).sort(), r = [];
  for (var i = 0; i < ks.length; i++) r.push([ks[i], hx(g[ks[i]])]);
  return {proto: Object.getPrototypeOf(g) === null, e: r};
}
function dm(m){
  if (m === null) return null;
  if (typeof m !== "object") return "?" + typeof m;
  var c = [];
  for (var i = 0; i < m.length; i++) c.push(hx(m[i]));
  return {i: m.index, c: c, g: dgroups(m.groups), inp: m.input === S, arr: Array.isArray(m)};
}
function dlist(a){
  if (a === null) return null;
  if (!Array.isArray(a)) return "?" + typeof a;
  var r = [];
  for (var i = 0; i < a.length; i++) r.push(hx(a[i]));
  return r;
}
function guard(f){
  try { return f(); } catch (e) { return "!" + (e && e.name ? e.name : typeof e); }
}

// ---- reference protocol (ECMA-262 2023) ----
function toLen(v){ v = Number(v); if (v !== v || v <= 0) return 0; if (v === Infinity) return 9007199254740991; v = Math.floor(v); return v > 9007199254740991 ? 9007199254740991 : v; }
function advIdx(s, i, u){
  if (!u) return i + 1;
  if (i + 1 >= s.length) return i + 1;
  var c = s.charCodeAt(i);
  if (c < 0xD800 || c > 0xDBFF) return i + 1;
  var d = s.charCodeAt(i + 1);
  if (d < 0xDC00 || d > 0xDFFF) return i + 1;
  return i + 2;
}
function refExec(R, s){
  var e = R.exec;
  if (typeof e === "function") {
    var r = e.call(R, s);
    if (r !== null && typeof r !== "object") throw new TypeError("exec result");
    return r;
  }
  return _exec0.call(R, s);
}
function species(R){
  var C = R.constructor;
  if (C === undefined) return RegExp;
  var Sp = C[Symbol.species];
  if (Sp === undefined || Sp === null) return RegExp;
  return Sp;
}
function refMatch(rx, s){
  var flags = String(rx.flags);
  if (flags.indexOf("g") < 0) return refExec(rx, s);
  var fu = flags.indexOf("u") >= 0;
  rx.lastIndex = 0;
  var A = [];
  for (;;) {
    var r = refExec(rx, s);
    if (r === null) return A.length === 0 ? null : A;
    var ms = String(r[0]);
    A.push(ms);
    if (ms === "") rx.lastIndex = advIdx(s, toLen(rx.lastIndex), fu);
  }
}
function refMatchAll(R, s){
  var C = species(R);
  var flags = String(R.flags);
  var matcher = new C(R, flags);
  matcher.lastIndex = toLen(R.lastIndex);
  var global = flags.indexOf("g") >= 0, fu = flags.indexOf("u") >= 0;
  var res = [];
  for (;;) {
    var m = refExec(matcher, s);
    if (m === null) return res;
    res.push(m);
    if (!global) return res;
    if (String(m[0]) === "") matcher.lastIndex = advIdx(s, toLen(matcher.lastIndex), fu);
  }
}
function getSubstitution(matched, str, position, captures, namedCaptures, tmpl){
  var result = "", rem = tmpl, m = captures.length;
  while (rem.length > 0) {
    var ref = rem.charAt(0), rep = ref;
    var c1 = rem.charAt(1);
    if (ref === "$" && rem.length > 1) {
      if (c1 === "$") { ref = "$$"; rep = "$"; }
      else if (c1 === "` + "`" + `") { ref = "$` + "`" + `"; rep = str.substring(0, position); }
      else if (c1 === "&") { ref = "$&"; rep = matched; }
      else if (c1 === "'") { ref = "$'"; var tp = Math.min(position + matched.length, str.length); rep = str.substring(tp); }
      else if (c1 >= "0" && c1 <= "9") {
        var c2 = rem.charAt(2);
        var dc = (rem.length > 2 && c2 >= "0" && c2 <= "9") ? 2 : 1;
        var digits = rem.substring(1, 1 + dc);
        var index = parseInt(digits, 10);
        if (index > m && dc === 2) { dc = 1; digits = rem.substring(1, 2); index = parseInt(digits, 10); }
        ref = rem.substring(0, 1 + dc);
        if (index >= 1 && index <= m) { var cap = captures[index - 1]; rep = cap === undefined ? "" : cap; }
        else rep = ref;
      }
      else if (c1 === "<") {
        var gt = rem.indexOf(">");
        if (gt === -1 || namedCaptures === undefined) { ref = "$<"; rep = ref; }
        else {
          ref = rem.substring(0, gt + 1);
          var cv = namedCaptures[rem.substring(2, gt)];
          rep = cv === undefined ? "" : String(cv);
        }
      }
    }
    rem = rem.substring(ref.length);
    result += rep;
  }
  return result;
}
function refReplace(rx, s, rv){
  var lengthS = s.length;
  var functional = typeof rv === "function";
  if (!functional) rv = String(rv);
  var flags = String(rx.flags);
  var global = flags.indexOf("g") >= 0, fu = false;
  if (global) { fu = flags.indexOf("u") >= 0; rx.lastIndex = 0; }
  var results = [];
  for (;;) {
    var result = refExec(rx, s);
    if (result === null) break;
    results.push(result);
    if (!global) break;
    if (String(result[0]) === "") rx.lastIndex = advIdx(s, toLen(rx.lastIndex), fu);
  }
  var acc = "", next = 0;
  for (var k = 0; k < results.length; k++) {
    var r = results[k];
    var nCaptures = Math.max(toLen(r.length) - 1, 0);
    var matched = String(r[0]);
    var position = Number(r.index); if (position !== position) position = 0;
    position = Math.max(Math.min(position < 0 ? Math.ceil(position) : Math.floor(position), lengthS), 0);
    var captures = [];
    for (var n = 1; n <= nCaptures; n++) { var cn = r[n]; if (cn !== undefined) cn = String(cn); captures.push(cn); }
    var named = r.groups, replacement;
    if (functional) {
      var args = [matched].concat(captures); args.push(position, s);
      if (named !== undefined) args.push(named);
      replacement = String(rv.apply(undefined, args));
    } else {
      if (named !== undefined) named = Object(named);
      replacement = getSubstitution(matched, s, position, captures, named, rv);
    }
    if (position >= next) { acc += s.substring(next, position) + replacement; next = position + matched.length; }
  }
  if (next >= lengthS) return acc;
  return acc + s.substring(next);
}
function refSearch(rx, s){
  var prev = rx.lastIndex;
  if (!Object.is(prev, 0)) rx.lastIndex = 0;
  var r = refExec(rx, s);
  var cur = rx.lastIndex;
  if (!Object.is(cur, prev)) rx.lastIndex = prev;
  return r === null ? -1 : r.index;
}
function refSplit(rx, s, limit){
  var C = species(rx);
  var flags = String(rx.flags);
  var um = flags.indexOf("u") >= 0;
  var nf = flags.indexOf("y") >= 0 ? flags : flags + "y";
  var splitter = new C(rx, nf);
  var A = [];
  var lim = limit === undefined ? 4294967295 : limit >>> 0;
  if (lim === 0) return A;
  if (s.length === 0) { if (refExec(splitter, s) !== null) return A; A.push(s); return A; }
  var size = s.length, p = 0, q = 0;
  while (q < size) {
    splitter.lastIndex = q;
    var z = refExec(splitter, s);
    if (z === null) q = advIdx(s, q, um);
    else {
      var e = Math.min(toLen(splitter.lastIndex), size);
      if (e === p) q = advIdx(s, q, um);
      else {
        A.push(s.substring(p, q));
        if (A.length === lim) return A;
        p = e;
        var nc = Math.max(toLen(z.length) - 1, 0);
        for (var i = 1; i <= nc; i++) { A.push(z[i]); if (A.length === lim) return A; }
        q = p;
      }
    }
  }
  A.push(s.substring(p, size));
  return A;
}

// ---- operations: each takes the configured regexp and reset(re), which puts
// lastIndex back to the case's start value before every observation (the object
// is shared by all operations of a case: compiling is the expensive part) ----
function mkReplacer(log){
  return function(){
    var a = [];
    for (var i = 0; i < arguments.length; i++) {
      var v = arguments[i];
      if (typeof v === "string") a.push(v === S && i >= arguments.length - 2 ? "S" : hx(v));
      else if (typeof v === "number") a.push(v);
      else if (v === undefined) a.push(null);
      else a.push(dgroups(v));
    }
    log.push(a);
    return "<$1" + arguments[0].length + "$&>";
  };
}
var OPS = {
  exec: function(re, reset, n){
    reset(re); var r = [li(re)];
    for (var k = 0; k < n; k++) { r.push(guard(function(){ return dm(re.exec(S)); })); r.push(li(re)); }
    return {b: r};
  },
  test: function(re, reset, n){
    var b = [], r = [], k;
    mark("b"); reset(re);
    for (k = 0; k < n; k++) { b.push(guard(function(){ return re.test(S); })); b.push(li(re)); }
    mark("r"); reset(re);
    for (k = 0; k < n; k++) { r.push(guard(function(){ return refExec(re, S) !== null; })); r.push(li(re)); }
    return {b: b, r: r};
  },
  match: function(re, reset){
    var re2 = re;
    function d(x){ return x === null ? null : (x.index === undefined && x.input === undefined ? dlist(x) : dm(x)); }
    return {b: [guard(function(){ mark("b"); reset(re); return d(S.match(re)); }), li(re)],
            r: [guard(function(){ mark("r"); reset(re2); return d(refMatch(re2, S)); }), li(re2)]};
  },
  matchAll: function(re, reset){
    var re2 = re;
    return {b: [guard(function(){ mark("b"); reset(re); return Array.from(S.matchAll(re), dm); }), li(re)],
            r: [guard(function(){ mark("r"); reset(re2); if (String(re2.flags).indexOf("g") < 0) throw new TypeError("g"); return refMatchAll(re2, S).map(dm); }), li(re2)]};
  },
  replace: function(re, reset, tmpl){
    var re2 = re;
    return {b: [guard(function(){ mark("b"); reset(re); return hx(S.replace(re, tmpl)); }), li(re)],
            r: [guard(function(){ mark("r"); reset(re2); return hx(refReplace(re2, S, tmpl)); }), li(re2)]};
  },
  replaceFn: function(re, reset){
    var re2 = re, l1 = [], l2 = [];
    return {b: [guard(function(){ mark("b"); reset(re); return hx(S.replace(re, mkReplacer(l1))); }), l1, li(re)],
            r: [guard(function(){ mark("r"); reset(re2); return hx(refReplace(re2, S, mkReplacer(l2))); }), l2, li(re2)]};
  },
  replaceAll: function(re, reset, tmpl){
    var re2 = re;
    return {b: [guard(function(){ mark("b"); reset(re); return hx(S.replaceAll(re, tmpl)); }), li(re)],
            r: [guard(function(){ mark("r"); reset(re2); if (String(re2.flags).indexOf("g") < 0) throw new TypeError("g"); return hx(refReplace(re2, S, tmpl)); }), li(re2)]};
  },
  replaceAllFn: function(re, reset){
    var re2 = re, l1 = [], l2 = [];
    return {b: [guard(function(){ mark("b"); reset(re); return hx(S.replaceAll(re, mkReplacer(l1))); }), l1, li(re)],
            r: [guard(function(){ mark("r"); reset(re2); if (String(re2.flags).indexOf("g") < 0) throw new TypeError("g"); return hx(refReplace(re2, S, mkReplacer(l2))); }), l2, li(re2)]};
  },
  search: function(re, reset){
    var re2 = re;
    return {b: [guard(function(){ mark("b"); reset(re); return S.search(re); }), li(re)],
            r: [guard(function(){ mark("r"); reset(re2); return refSearch(re2, S); }), li(re2)]};
  },
  split: function(re, reset, limit){
    var re2 = re;
    return {b: [guard(function(){ mark("b"); reset(re); return dlist(S.split(re, limit)); }), li(re)],
            r: [guard(function(){ mark("r"); reset(re2); return dlist(refSplit(re2, S, limit)); }), li(re2)]};
  },
  symmatch: function(re, reset){
    var re2 = re;
    function d(x){ return x === null ? null : (x.index === undefined && x.input === undefined ? dlist(x) : dm(x)); }
    return {b: [guard(function(){ mark("b"); reset(re); return d(re[Symbol.match](S)); }), li(re)],
            r: [guard(function(){ mark("r"); reset(re2); return d(refMatch(re2, S)); }), li(re2)]};
  },
  props: function(re, reset){
    return {b: [guard(function(){ mark("b"); reset(re); return [re.flags, re.global, re.ignoreCase, re.multiline, re.dotAll, re.unicode, re.sticky]; })]};
  }
};
var __marks = {};
function mark(tag){ __marks[tag] = globalThis.__execCalls | 0; }
function runOps(mk, reset, ops){
  var out = [], re;
  try { re = mk(); } catch (e) { return JSON.stringify({ctor: "!" + (e && e.name ? e.name : typeof e)}); }
  globalThis.__re = re;
  for (var i = 0; i < ops.length; i++) {
    var o = ops[i];
    __marks = {};
    var res = guard(function(){ return OPS[o[0]](re, reset, o[1]); });
    // number of calls that reached the forwarding exec wrapper (proto-exec / own-exec modes) during the
    // built-in (cb) and during the reference algorithm (cr): RegExpExec must call a user-visible exec
    if (res !== null && typeof res === "object" && __marks.b !== undefined && __marks.r !== undefined) {
      res.cb = __marks.r - __marks.b; res.cr = (globalThis.__execCalls | 0) - __marks.r;
    }
    out.push(res);
  }
  return JSON.stringify(out);
}

// ---- de-optimisation (forwarding wrappers: observably neutral per spec) ----
var RX = null;
function deoptProto(mode){
  var P = RegExp.prototype;
  if (mode === "proto-exec") {
    var oe = P.exec;
    globalThis.__execCalls = 0;
    P.exec = function(s){ globalThis.__execCalls++; return oe.call(this, s); };
  } else if (mode === "proto-getters") {
    ["flags", "global", "unicode", "sticky"].forEach(function(n){
      var d = Object.getOwnPropertyDescriptor(P, n);
      Object.defineProperty(P, n, {get: function(){ return d.get.call(this); }, configurable: true, enumerable: d.enumerable});
    });
  } else if (mode === "proto-symbols") {
    [Symbol.match, Symbol.matchAll, Symbol.replace, Symbol.search, Symbol.split].forEach(function(sy){
      var of = P[sy];
      Object.defineProperty(P, sy, {value: function(a, b){ return arguments.length > 1 ? of.call(this, a, b) : of.call(this, a); }, writable: true, configurable: true});
    });
  } else if (mode === "subclass") {
    RX = class extends RegExp {};
  }
}
function deoptInst(re, mode){
  if (mode === "own-exec") {
    if (globalThis.__execCalls === undefined) globalThis.__execCalls = 0;
    re.exec = function(s){ globalThis.__execCalls++; return _exec0.call(this, s); };
  } else if (mode === "own-symbols") {
    [Symbol.match, Symbol.matchAll, Symbol.replace, Symbol.search, Symbol.split].forEach(function(sy){
      var of = RegExp.prototype[sy];
      Object.defineProperty(re, sy, {value: function(a, b){ return arguments.length > 1 ? of.call(this, a, b) : of.call(this, a); }, writable: true, configurable: true});
    });
  } else if (mode === "setproto") {
    Object.setPrototypeOf(re, Object.create(RegExp.prototype));
  } else if (mode === "defprop") {
    Object.defineProperty(re, "extra", {value: 1, configurable: true});
  }
  return re;
}
`
