package c20

import (
	"bytes"
	"encoding/json"
	"fmt"
	"strconv"
	"strings"
	"unicode/utf16"

	"github.com/dop251/goja"

	"verifh/internal/evid"
	"verifh/internal/jsx"
)

// OpSpec is one observation applied to a fresh, configured RegExp object.
type OpSpec struct {
	Op    string   `json:"op"`
	N     int      `json:"n,omitempty"`     // exec/test: number of consecutive calls
	Tmpl  []uint16 `json:"tmpl,omitempty"`  // replace/replaceAll: replacement template
	Limit string   `json:"limit,omitempty"` // split: JS expression for the limit
}

// Case is one self-contained differential case.
type Case struct {
	Pat       []uint16 `json:"pat"` // pattern source p (UTF-16 units)
	PatText   string   `json:"pat_text"`
	Variant   string   `json:"variant"` // la-suffix | la-prefix | nla-wrap
	VPat      []uint16 `json:"vpat"`    // engine-forcing neutral variant of p
	AST       *Node    `json:"ast,omitempty"`
	Names     []string `json:"names"` // capture group names in paren order ("" = unnamed)
	Flags     string   `json:"flags"`
	Subject   []uint16 `json:"subject"`
	SubjText  string   `json:"subject_text"`
	Repr      string   `json:"repr"` // ascii | utf16 | utf16slice | go
	Start     int      `json:"start"`
	StartForm string   `json:"start_form"` // int str frac neg inf undef
	Ctor      string   `json:"ctor"`       // ctor | call | literal | compile
	Deopt     string   `json:"deopt"`
	Ops       []OpSpec `json:"ops"`

	excluded []string // generator-side notes (not part of the case)
}

var preludePrg = goja.MustCompile("c20prelude.js", preludeSrc, false)

func (c *Case) has(f byte) bool { return strings.IndexByte(c.Flags, f) >= 0 }

func (c *Case) startExpr() string {
	switch c.StartForm {
	case "str":
		return strconv.Quote(strconv.Itoa(c.Start))
	case "frac":
		return strconv.Itoa(c.Start) + ".5"
	case "neg":
		return "-" + strconv.Itoa(c.Start+1)
	case "inf":
		return "Infinity"
	case "undef":
		return "undefined"
	}
	return strconv.Itoa(c.Start)
}

// effStart is ToLength(lastIndex) for the configured start value.
func (c *Case) effStart() int64 {
	switch c.StartForm {
	case "neg", "undef":
		return 0
	case "inf":
		return 1<<53 - 1
	}
	return int64(c.Start)
}

func (c *Case) startLiRepr() string {
	switch c.StartForm {
	case "str":
		return `"string:` + strconv.Itoa(c.Start) + `"`
	case "frac":
		return strconv.Itoa(c.Start) + ".5"
	case "neg":
		return "-" + strconv.Itoa(c.Start+1)
	case "inf":
		return `"number:Infinity"`
	case "undef":
		return `"undefined:undefined"`
	}
	return strconv.Itoa(c.Start)
}

func (c *Case) ctorExpr(pat []uint16, deopt string) string {
	src := jsx.StrLit(pat, true)
	fl := strconv.Quote(c.Flags)
	cls := "RegExp"
	if deopt == "subclass" {
		cls = "RX"
	}
	switch c.Ctor {
	case "literal":
		lit := append(append([]uint16{'r', 'e', 't', 'u', 'r', 'n', ' ', '/'}, pat...), '/')
		for _, f := range c.Flags {
			lit = append(lit, uint16(f))
		}
		e := "(new Function(" + jsx.StrLit(lit, true) + "))()"
		if deopt == "subclass" {
			return "new RX(" + e + ")"
		}
		return e
	case "compile":
		return "new " + cls + `("(?:)").compile(` + src + "," + fl + ")"
	case "call":
		if deopt != "subclass" {
			return "RegExp(" + src + "," + fl + ")"
		}
	}
	return "new " + cls + "(" + src + "," + fl + ")"
}

func (c *Case) opsLit() string {
	var sb strings.Builder
	sb.WriteByte('[')
	for i, o := range c.Ops {
		if i > 0 {
			sb.WriteByte(',')
		}
		arg := "undefined"
		switch o.Op {
		case "exec", "test":
			arg = strconv.Itoa(o.N)
		case "replace", "replaceAll":
			arg = jsx.StrLit(o.Tmpl, true)
		case "split":
			arg = o.Limit
		}
		fmt.Fprintf(&sb, "[%q,%s]", o.Op, arg)
	}
	sb.WriteByte(']')
	return sb.String()
}

// script returns the program that runs all ops on pattern pat.
func (c *Case) script(pat []uint16, deopt string) string {
	return "(function(){ function mk(){ var re = " + c.ctorExpr(pat, deopt) + "; deoptInst(re, " + strconv.Quote(deopt) +
		"); return re; }\n function reset(re){ re.lastIndex = " + c.startExpr() + "; }\n globalThis.__re = undefined; return runOps(mk, reset, " + c.opsLit() + "); })()"
}

func (c *Case) subjectSetup(vm *goja.Runtime) (string, error) {
	switch c.Repr {
	case "go":
		vm.Set("S", string(utf16.Decode(c.Subject)))
		return "", nil
	case "utf16slice":
		return "var S = (" + jsx.StrLit(c.Subject, true) + " + \"\\u3042\").slice(0, " + strconv.Itoa(len(c.Subject)) + ");", nil
	case "utf16raw":
		return "var S = " + jsx.StrLit(c.Subject, false) + ";", nil
	}
	return "var S = " + jsx.StrLit(c.Subject, true) + ";", nil
}

type runInfo struct {
	Dump      string
	Engine    string
	Standard  bool
	StrRepr   string
	ExecCalls int64  // calls that went through the forwarding RegExp.prototype.exec wrapper (proto-exec mode)
	Fail      string // harness-level trouble (script did not complete)
	Kind      string
}

func (c *Case) runOne(vm *goja.Runtime, pat []uint16, deopt string) runInfo {
	o := jsx.RunString(vm, c.script(pat, deopt))
	if o.Kind != "value" {
		return runInfo{Fail: o.Text, Kind: o.Kind}
	}
	ri := runInfo{Dump: o.Value.String()}
	if v := vm.Get("__re"); v != nil && !goja.IsUndefined(v) {
		ri.Engine, ri.Standard = goja.VerifRegexpEngine(v)
	} else {
		ri.Engine = "ctor-failed"
	}
	k, _ := goja.VerifStrRepr(vm.Get("S"))
	ri.StrRepr = k
	if v := vm.Get("__execCalls"); v != nil && !goja.IsUndefined(v) {
		ri.ExecCalls = v.ToInteger()
	}
	return ri
}

// runtimes: index 0 = pristine, 1 = de-optimised. patterns: 0 = p, 1 = variant.
type runs [2][2]runInfo

func (c *Case) runAll() (res runs, fail *evid.Failure) {
	for rt := 0; rt < 2; rt++ {
		deopt := ""
		if rt == 1 {
			deopt = c.Deopt
		}
		vm := goja.New()
		if o := jsx.RunProgram(vm, preludePrg); o.Kind != "value" {
			return res, &evid.Failure{Check: "diff", Key: "harness", Msg: "prelude failed: " + o.Text, Case: c}
		}
		setup, _ := c.subjectSetup(vm)
		if deopt != "" {
			setup += " deoptProto(" + strconv.Quote(deopt) + ");"
		}
		if setup != "" {
			if o := jsx.RunString(vm, setup); o.Kind != "value" {
				return res, &evid.Failure{Check: "diff", Key: "harness", Msg: "setup failed: " + o.Text, Case: c}
			}
		}
		for p := 0; p < 2; p++ {
			pat := c.Pat
			if p == 1 {
				pat = c.VPat
			}
			ri := c.runOne(vm, pat, deopt)
			if ri.Fail != "" {
				key := "outcome:" + ri.Kind
				return res, &evid.Failure{Check: "diff", Key: key, Msg: fmt.Sprintf("script did not complete (%s) for pattern %s: %s", cfgName(rt, p), unitsToDebug(pat), ri.Fail), Case: c}
			}
			res[rt][p] = ri
		}
	}
	return res, nil
}

func cfgName(rt, p int) string {
	a := "fast"
	if rt == 1 {
		a = "generic"
	}
	b := "p"
	if p == 1 {
		b = "variant"
	}
	return a + "/" + b
}

type errCtor string

func (e errCtor) Error() string { return string(e) }

type opOut struct {
	B  json.RawMessage `json:"b"`
	R  json.RawMessage `json:"r"`
	CB *int            `json:"cb"`
	CR *int            `json:"cr"`
}

func parseDump(d string) ([]opOut, []string, error) {
	if strings.HasPrefix(d, `{"ctor":`) {
		return nil, nil, errCtor(d)
	}
	var raw []json.RawMessage
	if err := json.Unmarshal([]byte(d), &raw); err != nil {
		return nil, nil, err
	}
	outs := make([]opOut, len(raw))
	errs := make([]string, len(raw))
	for i, r := range raw {
		if len(r) > 0 && r[0] == '"' {
			json.Unmarshal(r, &errs[i])
			continue
		}
		if err := json.Unmarshal(r, &outs[i]); err != nil {
			return nil, nil, err
		}
	}
	return outs, errs, nil
}

type matchDump struct {
	I int64     `json:"i"`
	C []*string `json:"c"`
	G *struct {
		Proto bool            `json:"proto"`
		E     [][]interface{} `json:"e"`
	} `json:"g"`
	Inp bool `json:"inp"`
	Arr bool `json:"arr"`
}

func hexUnits(s string) ([]uint16, bool) {
	if len(s) == 0 || s[0] != 'x' || (len(s)-1)%4 != 0 {
		return nil, false
	}
	u := make([]uint16, 0, (len(s)-1)/4)
	for i := 1; i < len(s); i += 4 {
		v, err := strconv.ParseUint(s[i:i+4], 16, 16)
		if err != nil {
			return nil, false
		}
		u = append(u, uint16(v))
	}
	return u, true
}

func unitsEq(a, b []uint16) bool {
	if len(a) != len(b) {
		return false
	}
	for i := range a {
		if a[i] != b[i] {
			return false
		}
	}
	return true
}

func containsUnits(h, n []uint16) bool {
	for i := 0; i+len(n) <= len(h); i++ {
		if unitsEq(h[i:i+len(n)], n) {
			return true
		}
	}
	return false
}

func splitsPair(s []uint16, i int64) bool {
	return i > 0 && int(i) < len(s) && isHigh(int(s[i-1])) && isLow(int(s[i]))
}

// diffDetail classifies the first difference between two exec-like dumps.
func diffDetail(a, b json.RawMessage) string {
	var xa, xb []json.RawMessage
	if json.Unmarshal(a, &xa) != nil || json.Unmarshal(b, &xb) != nil {
		return "shape"
	}
	if len(xa) != len(xb) {
		return "length"
	}
	for i := range xa {
		if bytes.Equal(xa[i], xb[i]) {
			continue
		}
		ea, eb := xa[i], xb[i]
		an, bn := string(ea) == "null", string(eb) == "null"
		if an != bn {
			return "null-vs-value"
		}
		if len(ea) > 1 && len(eb) > 1 && (ea[1] == '!' || eb[1] == '!') {
			return "error"
		}
		var ma, mb matchDump
		if ea[0] == '{' && eb[0] == '{' && json.Unmarshal(ea, &ma) == nil && json.Unmarshal(eb, &mb) == nil && ma.C != nil && mb.C != nil {
			switch {
			case ma.I != mb.I:
				return "index"
			case len(ma.C) != len(mb.C):
				return "ncaptures"
			case (ma.C[0] == nil) != (mb.C[0] == nil) || ma.C[0] != nil && *ma.C[0] != *mb.C[0]:
				return "match0"
			}
			for k := range ma.C {
				if (ma.C[k] == nil) != (mb.C[k] == nil) {
					return "capture-undefined"
				}
				if ma.C[k] != nil && *ma.C[k] != *mb.C[k] {
					return "capture"
				}
			}
			return "groups"
		}
		if ea[0] == '[' && eb[0] == '[' {
			return "list"
		}
		if (ea[0] >= '0' && ea[0] <= '9' || ea[0] == '-') && (eb[0] >= '0' && eb[0] <= '9' || eb[0] == '-') {
			return "number"
		}
		return "value"
	}
	return "same"
}

func flagClass(c *Case) string {
	s := ""
	for _, f := range "gimsuy" {
		if c.has(byte(f)) {
			s += string(f)
		}
	}
	if s == "" {
		return "-"
	}
	return s
}

func short(r json.RawMessage) string {
	s := string(r)
	if len(s) > 600 {
		s = s[:600] + "…"
	}
	return s
}

// judgeDiff is the pure judge of the differential sub-check.
func judgeDiff(c *Case) *evid.Failure {
	rs, f := c.runAll()
	if f != nil {
		return c.classify(f)
	}
	return c.judgeRuns(&rs)
}

// classify files a failure of a case inside a known-defect input class under the class key.
func (c *Case) classify(f *evid.Failure) *evid.Failure {
	if f == nil || f.Key == "harness" || f.Key == "outcome:panic" {
		return f
	}
	if k := c.knownClass(); k != "" {
		f.Msg = "[" + f.Key + "] " + f.Msg
		if k == "class:regexp2-library-deviates-from-ecmascript" {
			_, ex := c.regexp2LibraryDeviates()
			f.Msg += "\n  " + ex
		}
		f.Key = k
	}
	return f
}

// judgeRuns: differential and reference-protocol disagreements of a case inside
// a known-defect input class are filed under the class key; the self-consistency
// checks (UTF-16 exactness, lastIndex protocol) are never masked.
func (c *Case) judgeRuns(rs *runs) *evid.Failure {
	f := c.classify(c.judgeRuns0(rs))
	if f != nil && !strings.HasPrefix(f.Key, "class:") {
		return f
	}
	if pf := c.judgeProto(rs); pf != nil {
		return pf
	}
	return f
}

func (c *Case) judgeRuns0(rs *runs) *evid.Failure {
	var outs [2][2][]opOut
	var errs [2][2][]string
	for rt := 0; rt < 2; rt++ {
		for p := 0; p < 2; p++ {
			o, e, err := parseDump(rs[rt][p].Dump)
			if ce, ok := err.(errCtor); ok {
				// every generated pattern is valid ECMAScript by construction
				pat := c.Pat
				if p == 1 {
					pat = c.VPat
				}
				return &evid.Failure{Check: "diff", Key: "ctor:throws:" + map[int]string{0: "p", 1: "variant"}[p],
					Msg: fmt.Sprintf("constructing the valid pattern /%s/%s (%s, ctor %s) threw %s; engines of the other configurations: %s|%s", unitsToDebug(pat), c.Flags, cfgName(rt, p), c.Ctor, string(ce), rs[0][0].Engine, rs[0][1].Engine), Case: c}
			}
			if err != nil || len(o) != len(c.Ops) {
				return &evid.Failure{Check: "diff", Key: "harness", Msg: fmt.Sprintf("cannot parse dump of %s: %v: %s", cfgName(rt, p), err, rs[rt][p].Dump), Case: c}
			}
			outs[rt][p], errs[rt][p] = o, e
		}
	}
	descr := func() string {
		return fmt.Sprintf("/%s/%s (variant %s, ctor %s, deopt %s; engines %s|%s, generic: %s|%s standard=%v|%v) on %s subject \"%s\" lastIndex=%s",
			unitsToDebug(c.Pat), c.Flags, c.Variant, c.Ctor, c.Deopt, rs[0][0].Engine, rs[0][1].Engine, rs[1][0].Engine, rs[1][1].Engine,
			rs[1][0].Standard, rs[1][1].Standard, rs[0][0].StrRepr, unitsToDebug(c.Subject), c.startExpr())
	}
	// 1. differential: engine axis (p vs variant, same path) and path axis (fast vs generic, same pattern)
	type pair struct {
		a, b [2]int
		axis string
	}
	pairs := []pair{
		{[2]int{0, 0}, [2]int{0, 1}, "engine"},
		{[2]int{0, 0}, [2]int{1, 0}, "path"},
		{[2]int{0, 1}, [2]int{1, 1}, "path"},
		{[2]int{1, 0}, [2]int{1, 1}, "engine"},
	}
	for i, op := range c.Ops {
		for _, pr := range pairs {
			a, b := outs[pr.a[0]][pr.a[1]][i], outs[pr.b[0]][pr.b[1]][i]
			ea, eb := errs[pr.a[0]][pr.a[1]][i], errs[pr.b[0]][pr.b[1]][i]
			if ea != eb {
				return &evid.Failure{Check: "diff", Key: pr.axis + ":" + op.Op + ":throws", Msg: fmt.Sprintf("%s: %s throws %q but %s throws %q; %s",
					op.Op, cfgName(pr.a[0], pr.a[1]), ea, cfgName(pr.b[0], pr.b[1]), eb, descr()), Case: c}
			}
			if !bytes.Equal(a.B, b.B) {
				det := diffDetail(a.B, b.B)
				msg := fmt.Sprintf("%s differs between %s and %s (%s axis):\n  %s: %s\n  %s: %s\n  %s", op.Op, cfgName(pr.a[0], pr.a[1]), cfgName(pr.b[0], pr.b[1]), pr.axis,
					cfgName(pr.a[0], pr.a[1]), short(a.B), cfgName(pr.b[0], pr.b[1]), short(b.B), descr())
				msg += c.blame(op, a.B, b.B, cfgName(pr.a[0], pr.a[1]), cfgName(pr.b[0], pr.b[1]))
				return &evid.Failure{Check: "diff", Key: pr.axis + ":" + op.Op + ":" + det, Msg: msg, Case: c,
					Expected: json.RawMessage(a.B), Observed: json.RawMessage(b.B)}
			}
		}
	}
	// 2. built-in protocol methods against the reference protocol (spec algorithms over exec)
	for i, op := range c.Ops {
		for rt := 0; rt < 2; rt++ {
			for p := 0; p < 2; p++ {
				o := outs[rt][p][i]
				if o.R == nil || errs[rt][p][i] != "" {
					continue
				}
				if o.CB != nil && o.CR != nil && *o.CB != *o.CR {
					return &evid.Failure{Check: "diff", Key: "ref:" + op.Op + ":exec-calls",
						Msg:  fmt.Sprintf("%s (%s, de-optimised by %s): the built-in invoked the user-visible exec %d times, the ECMA-262 algorithm (RegExpExec) invokes it %d times\n  %s", op.Op, cfgName(rt, p), c.Deopt, *o.CB, *o.CR, descr()),
						Case: c, Expected: *o.CR, Observed: *o.CB}
				}
				if !bytes.Equal(o.B, o.R) {
					path := "fast"
					if rt == 1 {
						path = "generic"
					}
					return &evid.Failure{Check: "diff", Key: "ref:" + op.Op + ":" + path + ":" + diffDetail(o.B, o.R),
						Msg:  fmt.Sprintf("%s (%s) disagrees with the ECMA-262 algorithm evaluated over exec():\n  built-in:  %s\n  reference: %s\n  %s", op.Op, cfgName(rt, p), short(o.B), short(o.R), descr()),
						Case: c, Expected: json.RawMessage(o.R), Observed: json.RawMessage(o.B)}
				}
			}
		}
	}
	return nil
}

// judgeProto: self-consistency of exec against the UTF-16 model of the subject and the lastIndex protocol.
func (c *Case) judgeProto(rs *runs) *evid.Failure {
	var outs [2][2][]opOut
	var errs [2][2][]string
	for rt := 0; rt < 2; rt++ {
		for p := 0; p < 2; p++ {
			o, e, err := parseDump(rs[rt][p].Dump)
			if err != nil || len(o) != len(c.Ops) {
				return nil // reported by judgeRuns0
			}
			outs[rt][p], errs[rt][p] = o, e
		}
	}
	descr := func() string {
		return fmt.Sprintf("/%s/%s (variant %s, ctor %s, deopt %s; engines %s|%s) on %s subject \"%s\" lastIndex=%s",
			unitsToDebug(c.Pat), c.Flags, c.Variant, c.Ctor, c.Deopt, rs[0][0].Engine, rs[0][1].Engine, rs[0][0].StrRepr, unitsToDebug(c.Subject), c.startExpr())
	}
	for i, op := range c.Ops {
		if op.Op != "exec" {
			continue
		}
		for rt := 0; rt < 2; rt++ {
			for p := 0; p < 2; p++ {
				if errs[rt][p][i] != "" {
					return &evid.Failure{Check: "diff", Key: "exec:throws", Msg: fmt.Sprintf("exec op threw %s (%s); %s", errs[rt][p][i], cfgName(rt, p), descr()), Case: c}
				}
				if key, msg := c.checkExecProtocol(outs[rt][p][i].B); key != "" {
					return &evid.Failure{Check: "diff", Key: "proto:" + key, Msg: fmt.Sprintf("%s (%s): %s\n  dump: %s\n  %s", op.Op, cfgName(rt, p), msg, short(outs[rt][p][i].B), descr()), Case: c}
				}
			}
		}
	}
	return nil
}

// checkExecProtocol verifies RegExpBuiltinExec's observable contract on the dump
// [li0, m1, li1, m2, li2 ...]: lastIndex evolution under g/y, index/match[0]
// agreement with the subject in UTF-16 units, no split pairs under u, capture
// count and named groups.
func (c *Case) checkExecProtocol(b json.RawMessage) (string, string) {
	var xs []json.RawMessage
	if err := json.Unmarshal(b, &xs); err != nil || len(xs) < 1 || len(xs)%2 != 1 {
		return "shape", "unexpected exec dump shape"
	}
	g, y, u := c.has('g'), c.has('y'), c.has('u')
	if string(xs[0]) != c.startLiRepr() {
		return "lastIndex-initial", fmt.Sprintf("lastIndex read back as %s after assignment of %s", xs[0], c.startExpr())
	}
	curNum := c.effStart()
	curRepr := string(xs[0])
	n := int64(len(c.Subject))
	named := false
	for _, nm := range c.Names {
		if nm != "" {
			named = true
		}
	}
	for k := 1; k < len(xs); k += 2 {
		m, liAfter := xs[k], string(xs[k+1])
		if len(m) > 0 && m[0] == '"' {
			return "exec-throws", "exec threw " + string(m)
		}
		isNull := string(m) == "null"
		start := int64(0)
		if g || y {
			start = curNum
		}
		midpair := u && splitsPair(c.Subject, start)
		var md matchDump
		if !isNull {
			if err := json.Unmarshal(m, &md); err != nil {
				return "shape", "unexpected match dump"
			}
			if !md.Arr || !md.Inp {
				return "result-object", "match result is not an array with input === subject"
			}
			if len(md.C) != len(c.Names)+1 {
				return "ncaptures", fmt.Sprintf("match array has %d elements, pattern has %d capture groups", len(md.C), len(c.Names))
			}
			if md.C[0] == nil {
				return "match0", "match[0] is undefined"
			}
			m0, ok := hexUnits(*md.C[0])
			if !ok {
				return "match0", "match[0] is not a string"
			}
			if md.I < 0 || md.I+int64(len(m0)) > n || !unitsEq(c.Subject[md.I:md.I+int64(len(m0))], m0) {
				return "index-utf16", fmt.Sprintf("subject.slice(index=%d, index+%d) !== match[0]", md.I, len(m0))
			}
			if u && !midpair && (splitsPair(c.Subject, md.I) || splitsPair(c.Subject, md.I+int64(len(m0)))) {
				return "splits-pair", fmt.Sprintf("match [%d,%d) splits a surrogate pair under the u flag", md.I, md.I+int64(len(m0)))
			}
			for ci := 1; ci < len(md.C); ci++ {
				if md.C[ci] == nil {
					continue
				}
				cu, ok := hexUnits(*md.C[ci])
				if !ok {
					return "capture-type", "capture is not a string"
				}
				if !containsUnits(m0, cu) {
					return "capture-outside", fmt.Sprintf("capture %d is not a substring of match[0]", ci)
				}
			}
			if named {
				if md.G == nil {
					return "groups-missing", "pattern has named groups but match.groups is undefined"
				}
				if !md.G.Proto {
					return "groups-proto", "match.groups does not have a null prototype"
				}
				want := map[string]*string{}
				for ci, nm := range c.Names {
					if nm != "" {
						want[nm] = md.C[ci+1]
					}
				}
				if len(md.G.E) != len(want) {
					return "groups-keys", fmt.Sprintf("match.groups has %d keys, pattern has %d named groups", len(md.G.E), len(want))
				}
				for _, e := range md.G.E {
					if len(e) != 2 {
						return "shape", "groups entry"
					}
					name, _ := e[0].(string)
					w, ok := want[name]
					if !ok {
						return "groups-keys", "unexpected group name " + name
					}
					gv, isStr := e[1].(string)
					if (w == nil) != !isStr || w != nil && *w != gv {
						return "groups-value", fmt.Sprintf("groups.%s differs from the numbered capture", name)
					}
				}
			} else if md.G != nil {
				return "groups-unexpected", "pattern has no named groups but match.groups is defined"
			}
		}
		if !(g || y) {
			if liAfter != curRepr {
				return "lastIndex-touched", fmt.Sprintf("lastIndex changed from %s to %s without g/y", curRepr, liAfter)
			}
			continue
		}
		if start > n && !isNull {
			return "lastIndex-beyond", "match although lastIndex > length"
		}
		if isNull {
			if liAfter != "0" {
				return "lastIndex-fail", fmt.Sprintf("lastIndex is %s after a failed match under g/y (must be 0)", liAfter)
			}
			curNum, curRepr = 0, "0"
			continue
		}
		m0, _ := hexUnits(*md.C[0])
		end := md.I + int64(len(m0))
		if liAfter != strconv.FormatInt(end, 10) {
			return "lastIndex-success", fmt.Sprintf("lastIndex is %s after a match ending at %d", liAfter, end)
		}
		if !midpair {
			if y && md.I != start {
				return "sticky-index", fmt.Sprintf("sticky match at %d but lastIndex was %d", md.I, start)
			}
			if md.I < start {
				return "global-index", fmt.Sprintf("match at %d before lastIndex %d", md.I, start)
			}
		}
		curNum, curRepr = end, liAfter
	}
	return "", ""
}

// blame consults the specification model for the first exec of an exec op and
// says which side deviates. Purely informative.
func (c *Case) blame(op OpSpec, a, b json.RawMessage, na, nb string) string {
	if op.Op != "exec" || c.AST == nil {
		return ""
	}
	var xa, xb []json.RawMessage
	if json.Unmarshal(a, &xa) != nil || json.Unmarshal(b, &xb) != nil || len(xa) < 3 || len(xb) < 3 {
		return ""
	}
	if !bytes.Equal(xa[1], xb[1]) {
		exp, ok := c.modelFirstExec()
		if !ok {
			return "\n  spec model: not applicable (budget / start inside a pair)"
		}
		s := "\n  spec model (ECMA-262 22.2.2 transcription) expects: " + exp
		switch {
		case exp == string(xa[1]):
			s += "  => " + nb + " deviates"
		case exp == string(xb[1]):
			s += "  => " + na + " deviates"
		default:
			s += "  => both deviate"
		}
		return s
	}
	return ""
}

// modelFirstExec renders the model's prediction for the first exec call in the
// same JSON form as dm() in the prelude.
func (c *Case) modelFirstExec() (string, bool) {
	start := 0
	if c.has('g') || c.has('y') {
		es := c.effStart()
		if es > int64(len(c.Subject)) {
			return "null", true
		}
		start = int(es)
	}
	mr := modelExec(c.AST, c.Flags, c.Subject, start, c.has('y'))
	if !mr.Known {
		return "", false
	}
	if !mr.Match {
		return "null", true
	}
	hexOf := func(u []uint16) string {
		var sb strings.Builder
		sb.WriteByte('x')
		for _, x := range u {
			fmt.Fprintf(&sb, "%04x", x)
		}
		return sb.String()
	}
	var sb strings.Builder
	fmt.Fprintf(&sb, `{"i":%d,"c":[`, mr.Caps[0])
	caps := make([]*string, len(mr.Caps)/2)
	for k := 0; k < len(mr.Caps)/2; k++ {
		if k > 0 {
			sb.WriteByte(',')
		}
		if mr.Caps[2*k] < 0 {
			sb.WriteString("null")
		} else {
			h := hexOf(c.Subject[mr.Caps[2*k]:mr.Caps[2*k+1]])
			caps[k] = &h
			sb.WriteString(`"` + h + `"`)
		}
	}
	sb.WriteString(`],"g":`)
	type ent struct {
		n string
		v *string
	}
	var ents []ent
	for ci, nm := range c.Names {
		if nm != "" {
			ents = append(ents, ent{nm, caps[ci+1]})
		}
	}
	if len(ents) == 0 {
		sb.WriteString("null")
	} else {
		// sorted by name like Object.keys(...).sort()
		for i := 1; i < len(ents); i++ {
			for j := i; j > 0 && ents[j].n < ents[j-1].n; j-- {
				ents[j], ents[j-1] = ents[j-1], ents[j]
			}
		}
		sb.WriteString(`{"proto":true,"e":[`)
		for i, e := range ents {
			if i > 0 {
				sb.WriteByte(',')
			}
			if e.v == nil {
				fmt.Fprintf(&sb, `["%s",null]`, e.n)
			} else {
				fmt.Fprintf(&sb, `["%s","%s"]`, e.n, *e.v)
			}
		}
		sb.WriteString("]}")
	}
	sb.WriteString(`,"inp":true,"arr":true}`)
	return sb.String(), true
}
