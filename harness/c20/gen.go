package c20

import (
	"strings"
	"unicode/utf8"

	"pgregory.net/rapid"
)

// ---- alphabets -----------------------------------------------------------

var asciiLits = []int{'a', 'b', 'c', 'a', 'b', 'A', 'B', 'z', 'Z', '0', '1', '9', '_', ' ', '-', ',', '=', '!', ':', '<', '#', '%', '@', '~', '"', '\''}
var syntaxLits = []int{'$', '.', '*', '+', '?', '(', ')', '[', ']', '{', '}', '|', '^', '\\', '/'}
var ctlLits = []int{'\n', '\r', '\t', '\v', '\f', 0, 0x1f, 0x7f}

// characters >= 0x80 without any case mapping (safe under the i flag)
var caselessBMP = []int{0xA0, 0xD7, 0xF7, 0x2028, 0x2029, 0x3042, 0x4E2D, 0xFEFF, 0x2003, 0x0660, 0xFFFD, 0xFFFF, 0x80, 0xE000}
var casedBMP = []int{0xE9, 0xC9, 0xDF, 0x17F, 0x212A, 0x3A9, 0x3C9, 0x130, 0x131, 0xFF21, 0xFF41, 0x1E9E, 0x3C2, 0x3C3}
var caselessAstral = []int{0x1F600, 0x10000, 0x10FFFF, 0x1D7D8, 0x2F800, 0x1F601}
var casedAstral = []int{0x10400, 0x10428} // Deseret capital / small long I
var loneSurr = []int{0xD800, 0xDBFF, 0xDC00, 0xDFFF, 0xD83D, 0xDE00}

type pgen struct {
	t      *rapid.T
	u      bool
	icase  bool
	ncap   int
	names  map[string]bool
	budget int
	rawLT  bool // pattern contains a raw line terminator or raw lone surrogate (not expressible as a literal)
}

func (g *pgen) pick(label string, n int) int { return rapid.IntRange(0, n-1).Draw(g.t, label) }

func (g *pgen) from(label string, xs []int) int { return xs[g.pick(label, len(xs))] }

// litChar draws a literal character (code unit or, in u mode, code point; in
// non-u mode an astral choice is returned as a code point too and split by the caller).
func (g *pgen) litChar() int {
	switch k := g.pick("litclass", 20); {
	case k < 10:
		return g.from("ascii", asciiLits)
	case k < 12:
		return g.from("syntax", syntaxLits)
	case k < 14:
		if g.pick("anyctl", 3) != 0 {
			// every control character 1..26 (printed as \cA..\cZ / \ca..\cz among other styles)
			return 1 + g.pick("ctlletter", 26)
		}
		return g.from("ctl", ctlLits)
	case k < 15:
		return g.from("caseless", caselessBMP)
	case k < 16:
		if g.icase {
			return g.from("caseless", caselessBMP)
		}
		return g.from("cased", casedBMP)
	case k < 18:
		if !g.icase && g.pick("casedastral", 4) == 0 {
			return g.from("castral", casedAstral)
		}
		return g.from("astral", caselessAstral)
	case k < 19:
		return g.from("lone", loneSurr)
	}
	return g.from("ascii", asciiLits)
}

func isSyntax(c int) bool { return c < 0x80 && strings.IndexByte(syntaxChars, byte(c)) >= 0 }

// style picks a print style valid for character c in the current mode.
func (g *pgen) style(c int, inClass bool) string {
	var opts []string
	switch {
	case isSyntax(c) || inClass && c == '-':
		opts = []string{"id", "id", "x2", "u4"}
	case c == '\n' || c == '\r' || c == '\t' || c == '\v' || c == '\f':
		opts = []string{"ctl", "ctl", "x2", "u4", "cc"}
	case c == 0x2028 || c == 0x2029:
		opts = []string{"u4", "u4", "raw"}
	case c < 0x20 || c == 0x7f:
		opts = []string{"x2", "u4"}
		if c >= 1 && c <= 26 {
			opts = append(opts, "cc", "cc", "ccl", "ccl")
		}
	case c < 0x80:
		opts = []string{"raw", "raw", "raw", "raw", "x2", "u4"}
		if !g.u && (c >= 'a' && c <= 'z' || c >= 'A' && c <= 'Z') && strings.IndexByte("bBcdDfknrsStuvwWxpP", byte(c)) < 0 && !inClass {
			// Annex B identity escape of a letter without other meaning (non-u only)
			opts = append(opts, "id")
		}
	case c >= 0xD800 && c <= 0xDFFF:
		opts = []string{"u4", "u4", "u4", "raw"}
	case c > 0xFFFF:
		opts = []string{"raw", "raw", "u4"}
	case c < 0x100:
		opts = []string{"raw", "raw", "x2", "u4"}
	default:
		opts = []string{"raw", "raw", "u4"}
	}
	if g.u {
		opts = append(opts, "ub")
	}
	s := opts[g.pick("style", len(opts))]
	if s == "raw" && (c == 0x2028 || c == 0x2029 || c >= 0xD800 && c <= 0xDFFF) {
		g.rawLT = true
	}
	return s
}

// chrNodes returns the atoms for literal character c: one node, or two code
// unit nodes for an astral character in non-u mode.
func (g *pgen) chrNodes(c int) []*Node {
	if c > 0xFFFF && !g.u {
		st := "raw"
		if g.pick("astralstyle", 3) == 0 {
			st = "u4"
		}
		cc := c - 0x10000
		return []*Node{{K: "chr", C: 0xD800 + (cc >> 10), Pr: st}, {K: "chr", C: 0xDC00 + (cc & 0x3FF), Pr: st}}
	}
	return []*Node{{K: "chr", C: c, Pr: g.style(c, false)}}
}

func (g *pgen) classItemChar() int {
	for {
		c := g.litChar()
		if c > 0xFFFF && !g.u {
			continue // would be two units: high-low range hazards; BMP only without u
		}
		return c
	}
}

func (g *pgen) class() *Node {
	n := &Node{K: "cls", Neg: g.pick("neg", 3) == 0}
	cnt := 1 + g.pick("nitems", 4)
	if g.pick("emptycls", 40) == 0 {
		cnt = 0 // [] matches nothing, [^] matches everything
	}
	for i := 0; i < cnt; i++ {
		switch k := g.pick("item", 10); {
		case k < 5:
			c := g.classItemChar()
			n.Items = append(n.Items, Item{Lo: c, Hi: c, PrLo: g.style(c, true)})
		case k < 8:
			lo, hi := g.rangeEnds()
			n.Items = append(n.Items, Item{Lo: lo, Hi: hi, PrLo: g.style(lo, true), PrHi: g.style(hi, true)})
		default:
			e := []string{"d", "w", "s", "D", "W", "S"}[g.pick("clsesc", 6)]
			if g.icase && g.pick("slow-clsesc", 8) != 0 {
				e = strings.ToLower(e)
			}
			n.Items = append(n.Items, Item{Esc: e})
		}
	}
	// a class must not begin with a raw '^' and, in u mode, a lone high must not be followed by a lone low
	for i := range n.Items {
		it := &n.Items[i]
		if it.Esc != "" {
			continue
		}
		if it.Lo == '^' && it.PrLo == "raw" {
			it.PrLo = "id"
		}
		if it.PrHi == "" && it.Hi == it.Lo {
			continue
		}
	}
	if g.u {
		var fixed []Item
		for i, it := range n.Items {
			if i > 0 && it.Esc == "" && isLow(it.Lo) {
				prev := n.Items[i-1]
				if prev.Esc == "" && isHigh(prev.Hi) {
					fixed = append(fixed, Item{Lo: 'q', Hi: 'q', PrLo: "raw"})
				}
			}
			fixed = append(fixed, it)
		}
		n.Items = fixed
	}
	return n
}

func (g *pgen) rangeEnds() (int, int) {
	switch k := g.pick("rangekind", 10); {
	case k < 4:
		pairs := [][2]int{{'a', 'c'}, {'a', 'z'}, {'A', 'Z'}, {'0', '9'}, {'b', 'y'}, {'A', 'z'}, {'0', 'z'}, {' ', '~'}, {'a', 'a'}, {'Z', 'a'}}
		p := pairs[g.pick("ar", len(pairs))]
		return p[0], p[1]
	case k < 6 && !g.icase:
		pairs := [][2]int{{0x80, 0xFF}, {0xC0, 0x17F}, {0x100, 0xFFFF}, {0x0, 0xFFFF}, {0x3041, 0x3096}, {0x2000, 0x206F}, {0xD800, 0xDFFF}, {0xD800, 0xDBFF}, {0xDC00, 0xDFFF}, {0xE000, 0xFFFF}}
		p := pairs[g.pick("br", len(pairs))]
		return p[0], p[1]
	case k < 6:
		// caseless-only ranges under i
		// (kept narrow: regexp2 enumerates every member of a class to add case equivalences)
		pairs := [][2]int{{0x2000, 0x206F}, {0x3041, 0x3096}, {0xD800, 0xD840}, {0xDBC0, 0xDBFF}, {0xDC00, 0xDC40}, {0xDFC0, 0xDFFF}, {0x4E00, 0x4E2D}, {0xE000, 0xE040}}
		p := pairs[g.pick("cr", len(pairs))]
		return p[0], p[1]
	case k < 8 && g.u:
		pairs := [][2]int{{0x1F600, 0x1F64F}, {0xFFFF, 0x10000}, {0x1D7CE, 0x1D7FF}, {0x2F800, 0x2F880}, {0x10FFF0, 0x10FFFF}}
		if !g.icase {
			pairs = append(pairs, [2]int{0x0, 0x10FFFF}, [2]int{0x80, 0x10FFFF}, [2]int{0x10000, 0x10FFFF}, [2]int{0xE000, 0x1F600}, [2]int{0x2F800, 0x10FFFF})
		}
		p := pairs[g.pick("ur", len(pairs))]
		return p[0], p[1]
	}
	a, b := g.classItemChar(), g.classItemChar()
	if g.icase && (a >= 0x80 || b >= 0x80) {
		// a range over arbitrary non-ASCII characters may contain cased letters: not modelled under i
		return 'a', 'f'
	}
	if a > b {
		a, b = b, a
	}
	return a, b
}

func (g *pgen) groupName() string {
	re2ok := []string{"n", "nm", "x1", "year", "k"}
	other := []string{"N", "a_b", "$d", "Cap", "_u"}
	for tries := 0; ; tries++ {
		var nm string
		if g.pick("namekind", 5) < 4 {
			nm = re2ok[g.pick("nm", len(re2ok))]
		} else {
			nm = other[g.pick("nm2", len(other))]
		}
		if tries > 6 {
			nm = nm + string(rune('a'+len(g.names)))
		}
		if !g.names[nm] {
			g.names[nm] = true
			return nm
		}
	}
}

// atom returns one quantifiable atom (possibly preceded by extra unit atoms
// for an astral literal in non-u mode).
func (g *pgen) atom(depth int) (pre []*Node, a *Node) {
	g.budget--
	k := g.pick("atom", 20)
	if depth <= 0 || g.budget <= 0 {
		k = k % 12
	}
	switch {
	case k < 7:
		ns := g.chrNodes(g.litChar())
		return ns[:len(ns)-1], ns[len(ns)-1]
	case k < 8:
		if g.icase && g.pick("slow-any", 8) != 0 {
			// regexp2 needs tens of milliseconds to compile '.', \D, \W, \S under IgnoreCase; keep them rarer there
			ns := g.chrNodes(g.litChar())
			return ns[:len(ns)-1], ns[len(ns)-1]
		}
		return nil, &Node{K: "any"}
	case k < 10:
		e := []string{"d", "w", "s", "D", "W", "S"}[g.pick("esc", 6)]
		if g.icase && g.pick("slow-esc", 8) != 0 {
			e = strings.ToLower(e)
		}
		return nil, &Node{K: "esc", Esc: e}
	case k < 12:
		return nil, g.class()
	case k < 17 && g.ncap < 4:
		g.ncap++
		n := &Node{K: "cap"}
		if g.pick("named", 3) == 0 {
			n.Name = g.groupName()
		}
		n.Kids = []*Node{g.disj(depth - 1)}
		return nil, n
	default:
		return nil, &Node{K: "ncap", Kids: []*Node{g.disj(depth - 1)}}
	}
}

func (g *pgen) quant(a *Node) *Node {
	q := &Node{K: "quant", Kids: []*Node{a}, Lazy: g.pick("lazy", 3) == 0}
	switch g.pick("qkind", 9) {
	case 0, 1:
		q.Min, q.Max, q.QPr = 0, -1, "*"
	case 2, 3:
		q.Min, q.Max, q.QPr = 1, -1, "+"
	case 4, 5:
		q.Min, q.Max, q.QPr = 0, 1, "?"
	case 6:
		q.Min = g.pick("qn", 4)
		q.Max, q.QPr = q.Min, "n"
	case 7:
		q.Min = g.pick("qn", 3)
		q.Max, q.QPr = -1, "n,"
	default:
		q.Min = g.pick("qn", 3)
		q.Max = q.Min + g.pick("qm", 3)
		q.QPr = "n,m"
	}
	return q
}

func (g *pgen) terms(depth int) []*Node {
	switch k := g.pick("term", 20); {
	case k < 2:
		return []*Node{{K: []string{"bol", "eol"}[g.pick("anchor", 2)]}}
	case k < 4:
		return []*Node{{K: []string{"wb", "nwb"}[g.pick("wordb", 2)]}}
	default:
		pre, a := g.atom(depth)
		if g.pick("quantified", 5) < 2 {
			a = g.quant(a)
		}
		return append(pre, a)
	}
}

func (g *pgen) seq(depth int) *Node {
	n := &Node{K: "seq"}
	cnt := g.pick("nterms", 5)
	if depth >= 2 && cnt == 0 {
		cnt = 1 + g.pick("nterms2", 3)
	}
	for i := 0; i < cnt && g.budget > 0; i++ {
		n.Kids = append(n.Kids, g.terms(depth)...)
	}
	return n
}

func (g *pgen) disj(depth int) *Node {
	nalt := 1
	if k := g.pick("nalt", 10); k >= 6 {
		nalt = 2
		if k == 9 {
			nalt = 3
		}
	}
	if nalt == 1 {
		return g.seq(depth)
	}
	n := &Node{K: "alt"}
	for i := 0; i < nalt; i++ {
		n.Kids = append(n.Kids, g.seq(depth))
	}
	return n
}

// ---- subject ----------------------------------------------------------------

type sgen struct {
	t     *rapid.T
	u     bool
	icase bool
	multi bool
}

func (s *sgen) pick(label string, n int) int { return rapid.IntRange(0, n-1).Draw(s.t, label) }

func (s *sgen) randChar() int {
	switch k := s.pick("sclass", 20); {
	case k < 9:
		return []int{'a', 'b', 'c', 'A', 'B', 'z', '0', '1', '_', ' ', '-', 'a', 'b'}[s.pick("sa", 13)]
	case k < 11:
		return []int{'\n', '\r', '\t', 0x2028, 0x2029, '\v', 0}[s.pick("sl", 7)]
	case k < 13:
		return caselessBMP[s.pick("sc", len(caselessBMP))]
	case k < 15:
		if s.icase {
			return caselessBMP[s.pick("sc", len(caselessBMP))]
		}
		return casedBMP[s.pick("sd", len(casedBMP))]
	case k < 18:
		if !s.icase && s.pick("sca", 5) == 0 {
			return casedAstral[s.pick("scb", len(casedAstral))]
		}
		return caselessAstral[s.pick("se", len(caselessAstral))]
	default:
		return loneSurr[s.pick("sf", len(loneSurr))]
	}
}

func appendCP(u []uint16, c int) []uint16 {
	if c > 0xFFFF {
		c -= 0x10000
		return append(u, uint16(0xD800+(c>>10)), uint16(0xDC00+(c&0x3FF)))
	}
	return append(u, uint16(c))
}

// sample appends a string the node is likely to match.
func (s *sgen) sample(n *Node, out []uint16) []uint16 {
	switch n.K {
	case "seq":
		for _, k := range n.Kids {
			out = s.sample(k, out)
		}
	case "alt":
		out = s.sample(n.Kids[s.pick("altpick", len(n.Kids))], out)
	case "chr":
		c := n.C
		if s.icase && s.pick("flip", 2) == 0 {
			if c >= 'a' && c <= 'z' {
				c -= 32
			} else if c >= 'A' && c <= 'Z' {
				c += 32
			}
		}
		out = appendCP(out, c)
	case "any":
		out = appendCP(out, s.randChar())
	case "esc":
		var opts []int
		switch n.Esc {
		case "d":
			opts = []int{'0', '7', '9'}
		case "w":
			opts = []int{'a', 'Z', '_', '5'}
		case "s":
			opts = []int{' ', '\t', '\n', 0xA0, 0xFEFF, 0x2028, 0x3000, 0x2003, '\v'}
		case "D":
			opts = []int{'a', ' ', 0x660, 0x1D7D8, 0xFF10}
		case "W":
			opts = []int{' ', '-', 0xE9, 0x3042, 0x1F600, 0x17F, 0x212A}
		case "S":
			opts = []int{'a', '1', 0x3042, 0x1F600, 0x180E, 0x200B}
		}
		c := opts[s.pick("escpick", len(opts))]
		if s.icase && c >= 0x80 && !isCaseless(c) {
			c = opts[0]
		}
		out = appendCP(out, c)
	case "cls":
		if n.Neg || len(n.Items) == 0 {
			out = appendCP(out, s.randChar())
			break
		}
		it := n.Items[s.pick("itempick", len(n.Items))]
		if it.Esc != "" {
			out = s.sample(&Node{K: "esc", Esc: it.Esc}, out)
			break
		}
		c := it.Lo
		if it.Hi > it.Lo {
			switch s.pick("rangepos", 3) {
			case 1:
				c = it.Hi
			case 2:
				c = it.Lo + s.pick("rangeoff", it.Hi-it.Lo+1)
			}
		}
		if s.icase && c >= 0x80 && !isCaseless(c) {
			c = it.Lo
		}
		out = appendCP(out, c)
	case "bol", "eol":
		if s.multi && s.pick("lt", 2) == 0 {
			out = append(out, []uint16{'\n', '\r', 0x2028, 0x2029}[s.pick("ltc", 4)])
		}
	case "wb", "nwb":
	case "cap", "ncap":
		out = s.sample(n.Kids[0], out)
	case "quant":
		hi := n.Max
		if hi < 0 || hi > n.Min+2 {
			hi = n.Min + 2
		}
		cnt := n.Min + s.pick("reps", hi-n.Min+1)
		for i := 0; i < cnt; i++ {
			out = s.sample(n.Kids[0], out)
		}
	}
	return out
}

// isCaseless reports whether c (>= 0x80) is one of the characters the harness
// knows to have no case mapping; everything else is kept out of i-flag cases.
func isCaseless(c int) bool {
	if c >= 0xD800 && c <= 0xDFFF {
		return true
	}
	for _, x := range caselessBMP {
		if x == c {
			return true
		}
	}
	for _, x := range caselessAstral {
		if x == c {
			return true
		}
	}
	switch {
	case c >= 0x2000 && c <= 0x206F, c >= 0x3041 && c <= 0x3096, c >= 0x4E00 && c <= 0x9FFF, c >= 0xE000 && c <= 0xF8FF,
		c >= 0x1F600 && c <= 0x1F64F, c >= 0x1D7CE && c <= 0x1D7FF, c >= 0x2F800 && c <= 0x2FA1F, c == 0x3000, c == 0x1680:
		return true
	}
	return false
}

func subjectIsCaseless(u []uint16) bool {
	for i := 0; i < len(u); i++ {
		c := int(u[i])
		if isHigh(c) && i+1 < len(u) && isLow(int(u[i+1])) {
			c = 0x10000 + (c-0xD800)<<10 + int(u[i+1]) - 0xDC00
			i++
		}
		if c >= 0x80 && !isCaseless(c) {
			return false
		}
	}
	return true
}

func wellFormed(u []uint16) bool {
	for i := 0; i < len(u); i++ {
		c := int(u[i])
		if isHigh(c) {
			if i+1 < len(u) && isLow(int(u[i+1])) {
				i++
				continue
			}
			return false
		}
		if isLow(c) {
			return false
		}
	}
	return true
}

func utf8Len(u []uint16) int {
	n := 0
	for i := 0; i < len(u); i++ {
		c := rune(u[i])
		if isHigh(int(c)) && i+1 < len(u) && isLow(int(u[i+1])) {
			n += 4
			i++
			continue
		}
		n += utf8.RuneLen(c)
	}
	return n
}

// ---- whole case ---------------------------------------------------------------

var allOps = []string{"test", "match", "matchAll", "replace", "replaceFn", "replaceAll", "replaceAllFn", "search", "split", "symmatch", "props"}
var deoptModes = []string{"proto-exec", "proto-getters", "proto-symbols", "subclass", "own-exec", "own-symbols", "setproto", "defprop"}
var splitLimits = []string{"undefined", "undefined", "0", "1", "2", "3", "5", "-1", "4294967297", `"2"`, "1.9", "null", "NaN"}

func genFlags(t *rapid.T) string {
	bits := rapid.IntRange(0, 63).Draw(t, "flags")
	s := ""
	for i, f := range "gimsuy" {
		if bits&(1<<i) != 0 {
			s += string(f)
		}
	}
	// the order of flags in the flags string is free; sometimes permute
	if len(s) > 1 && rapid.IntRange(0, 3).Draw(t, "flagperm") == 0 {
		b := []byte(s)
		k := rapid.IntRange(1, len(b)-1).Draw(t, "rot")
		s = string(append(b[k:], b[:k]...))
	}
	return s
}

func genTemplate(t *rapid.T, names []string) []uint16 {
	toks := []string{"$1", "$2", "$3", "$4", "$&", "$`", "$'", "$$", "$<", "$0", "$10", "$01", "$11", "$", "x", "-", "é", "😀", "$<zz>", ">", "1"}
	var out []uint16
	n := rapid.IntRange(1, 4).Draw(t, "ntok")
	for i := 0; i < n; i++ {
		k := rapid.IntRange(0, len(toks)+2).Draw(t, "tok")
		var s string
		if k >= len(toks) {
			nm := "n"
			for _, x := range names {
				if x != "" {
					nm = x
				}
			}
			s = "$<" + nm + ">"
		} else {
			s = toks[k]
		}
		for _, r := range s {
			out = appendCP(out, int(r))
		}
	}
	return out
}

func genCase(t *rapid.T) *Case {
	c := &Case{}
	c.Flags = genFlags(t)
	g := &pgen{t: t, u: c.has('u'), icase: c.has('i'), names: map[string]bool{}, budget: 12}
	depth := rapid.IntRange(1, 3).Draw(t, "depth")
	ast := g.disj(depth)
	if g.ncap == 0 && rapid.IntRange(0, 3).Draw(t, "forcecap") > 0 {
		// most cases should have a capture group (non-triviality rule)
		g.ncap++
		ast = &Node{K: "seq", Kids: []*Node{{K: "cap", Kids: []*Node{ast}}}}
	}
	if hasSurrogateRun(ast) {
		if rapid.IntRange(0, 39).Draw(t, "keep-known-class") != 0 {
			breakSurrogateRuns(ast)
			c.excluded = append(c.excluded, "adjacent literal/class atoms mentioning a surrogate separated (known: regexp2 cannot match surrogate code units given as separate runes in such positions)")
		}
	}
	if hasKind(ast, "nwb") && hasGreedySimpleLoop(ast) && rapid.IntRange(0, 39).Draw(t, "keep-known-class-nwb") != 0 {
		walk(ast, func(x *Node) {
			if x.K == "nwb" {
				x.K = "wb"
			}
		})
		c.excluded = append(c.excluded, "\\B turned into \\b in patterns with a greedy single-character loop (known: regexp2 makes the loop atomic)")
	}
	if hasLiteral(ast, 0xFFFF) && rapid.IntRange(0, 39).Draw(t, "keep-known-class-ffff") != 0 {
		walk(ast, func(x *Node) {
			if x.K == "chr" && x.C == 0xFFFF {
				x.C = 0xFFFE
			}
		})
		c.excluded = append(c.excluded, "literal U+FFFF in the pattern replaced by U+FFFE (known: regexp2 never finds a leading literal that starts with U+FFFF)")
	}
	if hasNullableLoopWithCapture(ast) && rapid.IntRange(0, 39).Draw(t, "keep-known-class-emptyiter") != 0 {
		uncaptureNullableLoops(ast)
		c.excluded = append(c.excluded, "capture groups inside a quantified body that can match empty made non-capturing (known: empty iterations are not rejected as ECMAScript requires)")
	}
	if hasEscapedDashRangeEnd(ast) && rapid.IntRange(0, 39).Draw(t, "keep-known-class-dash") != 0 {
		fixEscapedDashRangeEnd(ast)
		c.excluded = append(c.excluded, "class range endpoint \\- printed as \\x2d (known: regexp2 does not read [\\--a] as a range)")
	}
	if hasNotDigitBeforeItem(ast) && rapid.IntRange(0, 39).Draw(t, "keep-known-class-D") != 0 {
		moveNotDigitLast(ast)
		c.excluded = append(c.excluded, "class members reordered so that \\D is last (known: regexp2 subtracts members that follow \\D in a class)")
	}
	c.AST = ast
	c.Names = captureNames(ast)
	if c.Names == nil {
		c.Names = []string{}
	}
	c.Pat = PrintPattern(ast, g.u)
	c.PatText = unitsToDebug(c.Pat)
	c.Variant = []string{"la-suffix", "la-prefix", "nla-wrap"}[rapid.IntRange(0, 2).Draw(t, "variant")]
	c.VPat = variantOf(c.Pat, c.Variant)

	// subject
	s := &sgen{t: t, u: g.u, icase: g.icase, multi: c.has('m')}
	var subj []uint16
	maxLen := 14
	if starHeight(ast) >= 2 {
		maxLen = 9
	}
	mode := rapid.IntRange(0, 9).Draw(t, "subjmode")
	npre := rapid.IntRange(0, 3).Draw(t, "npre")
	for i := 0; i < npre; i++ {
		subj = appendCP(subj, s.randChar())
	}
	if mode < 8 {
		subj = s.sample(ast, subj)
		if mode >= 6 {
			subj = s.sample(ast, subj) // two occurrences: exercises g iteration
		}
	}
	nsuf := rapid.IntRange(0, 3).Draw(t, "nsuf")
	for i := 0; i < nsuf; i++ {
		subj = appendCP(subj, s.randChar())
	}
	if len(subj) > 0 && rapid.IntRange(0, 4).Draw(t, "mutate") == 0 {
		i := rapid.IntRange(0, len(subj)-1).Draw(t, "mutpos")
		if rapid.Bool().Draw(t, "mutdel") {
			subj = append(subj[:i:i], subj[i+1:]...)
		} else {
			r := appendCP(nil, s.randChar())
			subj = append(subj[:i:i], append(r, subj[i+1:]...)...)
		}
	}
	if len(subj) > maxLen {
		subj = subj[:maxLen]
	}
	wantLong := starHeight(ast) < 2 && rapid.IntRange(0, 5).Draw(t, "long") == 0
	if wantLong {
		for utf8Len(subj) <= 16 && len(subj) < 24 {
			subj = appendCP(subj, s.randChar())
		}
	}
	if hasWordBoundary(ast) && subjectHasUnicodeWord(subj, g.u) && rapid.IntRange(0, 39).Draw(t, "keep-known-class-wb") != 0 {
		// known: regexp2 evaluates \b / \B with Unicode word characters; keep such subjects rare
		var repl []uint16
		for i := 0; i < len(subj); i++ {
			cu := int(subj[i])
			if g.u && isHigh(cu) && i+1 < len(subj) && isLow(int(subj[i+1])) {
				cp := 0x10000 + (cu-0xD800)<<10 + int(subj[i+1]) - 0xDC00
				if unicodeWordNotES(cp) {
					repl = appendCP(repl, 0x1F600)
				} else {
					repl = append(repl, subj[i], subj[i+1])
				}
				i++
				continue
			}
			if unicodeWordNotES(cu) {
				repl = append(repl, 0xD7)
			} else {
				repl = append(repl, subj[i])
			}
		}
		subj = repl
		c.excluded = append(c.excluded, "subject letters/digits >= 0x80 replaced when the pattern has \\b or \\B (known: regexp2 uses Unicode word characters for boundaries)")
	}
	if !c.has('s') && hasKind(ast, "any") && subjectHasLSPS(subj) && rapid.IntRange(0, 39).Draw(t, "keep-known-class-dot") != 0 {
		for i := range subj {
			if subj[i] == 0x2028 || subj[i] == 0x2029 {
				subj[i] = '\n'
			}
		}
		c.excluded = append(c.excluded, "U+2028/U+2029 in the subject replaced by LF when the pattern has '.' without s (known: regexp2 '.' matches LS/PS)")
	}
	if g.u && hasEmptyClass(ast) && subjectHasCPAbove(subj, 0x1FFFF) && rapid.IntRange(0, 39).Draw(t, "keep-known-class-emptycls") != 0 {
		for i := 0; i+1 < len(subj); i++ {
			if isHigh(int(subj[i])) && isLow(int(subj[i+1])) && 0x10000+(int(subj[i])-0xD800)<<10+int(subj[i+1])-0xDC00 > 0x1FFFF {
				subj[i], subj[i+1] = 0xD83D, 0xDE00
			}
		}
		c.excluded = append(c.excluded, "code points above U+1FFFF replaced in the subject when a u pattern has [] or [^] (known: RE2 translation stops at U+1FFFF)")
	}
	if c.has('m') && (hasKind(ast, "bol") || hasKind(ast, "eol")) && rapid.IntRange(0, 39).Draw(t, "keep-common-mode-lt") != 0 {
		// Both engines recognise only LF as a line terminator for ^ and $ under m (a deviation from
		// ECMAScript common to both engines and both paths, hence outside this property); such subjects
		// would only make the library-vs-specification classification fire, so keep them rare.
		changed := false
		for i := range subj {
			if subj[i] == '\r' || subj[i] == 0x2028 || subj[i] == 0x2029 {
				subj[i] = '\n'
				changed = true
			}
		}
		if changed {
			c.excluded = append(c.excluded, "CR/LS/PS in the subject replaced by LF for m-flag patterns with ^ or $ (both engines treat only LF as line terminator there: common-mode deviation, invisible to a differential oracle)")
		}
	}
	if subj == nil {
		subj = []uint16{}
	}
	c.Subject = subj
	c.SubjText = unitsToDebug(subj)

	// representation
	reprs := []string{"utf16", "utf16raw", "utf16slice"}
	if wellFormed(subj) {
		reprs = append(reprs, "go", "go", "go")
	}
	c.Repr = reprs[rapid.IntRange(0, len(reprs)-1).Draw(t, "repr")]

	// start position
	c.Start = 0
	if rapid.IntRange(0, 9).Draw(t, "startkind") >= 4 {
		c.Start = rapid.IntRange(0, len(subj)+1).Draw(t, "start")
	}
	// a start position inside a surrogate pair: under u the engines step back / substitute code units there
	var lows []int
	for i := 0; i+1 < len(subj); i++ {
		if isHigh(int(subj[i])) && isLow(int(subj[i+1])) {
			lows = append(lows, i+1)
		}
	}
	if len(lows) > 0 && rapid.IntRange(0, 3).Draw(t, "start-midpair") == 0 {
		c.Start = lows[rapid.IntRange(0, len(lows)-1).Draw(t, "midpair")]
	}
	c.StartForm = "int"
	if k := rapid.IntRange(0, 19).Draw(t, "startform"); k >= 17 {
		c.StartForm = []string{"str", "frac", "neg", "inf", "undef"}[rapid.IntRange(0, 4).Draw(t, "sf")]
	}

	ctors := []string{"ctor", "ctor", "ctor", "call", "compile"}
	if !g.rawLT && len(c.Pat) > 0 { // an empty literal would be the comment "//"
		ctors = append(ctors, "literal", "literal")
	}
	c.Ctor = ctors[rapid.IntRange(0, len(ctors)-1).Draw(t, "ctor")]
	c.Deopt = deoptModes[rapid.IntRange(0, len(deoptModes)-1).Draw(t, "deopt")]

	c.Ops = []OpSpec{{Op: "exec", N: rapid.IntRange(1, 3).Draw(t, "nexec")}}
	ops := rapid.SliceOfNDistinct(rapid.SampledFrom(allOps), 1, 4, func(s string) string { return s }).Draw(t, "ops")
	for _, o := range ops {
		sp := OpSpec{Op: o}
		switch o {
		case "test":
			sp.N = rapid.IntRange(1, 3).Draw(t, "ntest")
		case "replace", "replaceAll":
			sp.Tmpl = genTemplate(t, c.Names)
		case "split":
			sp.Limit = splitLimits[rapid.IntRange(0, len(splitLimits)-1).Draw(t, "limit")]
		}
		c.Ops = append(c.Ops, sp)
	}
	return c
}

func variantOf(pat []uint16, kind string) []uint16 {
	u := func(s string) []uint16 {
		var r []uint16
		for _, c := range s {
			r = append(r, uint16(c))
		}
		return r
	}
	switch kind {
	case "la-prefix":
		return append(u("(?=)"), pat...)
	case "nla-wrap":
		return append(append(u("(?:"), pat...), u(`)(?!\b\B)`)...)
	}
	return append(append([]uint16{}, pat...), u("(?=)")...)
}
