package c20

import (
	"encoding/json"
	"os"
	"strings"
	"testing"

	"pgregory.net/rapid"

	"verifh/internal/evid"
)

func TestMain(m *testing.M) { evid.Main("C20", m) }

// firstExec extracts the first exec result of the fast/p configuration.
func firstExec(c *Case, rs *runs) (matched bool, index int64, m0len int) {
	outs, errs, err := parseDump(rs[0][0].Dump)
	if err != nil || len(outs) == 0 || errs[0] != "" {
		return
	}
	var xs []json.RawMessage
	if json.Unmarshal(outs[0].B, &xs) != nil || len(xs) < 3 || string(xs[1]) == "null" {
		return
	}
	var md matchDump
	if json.Unmarshal(xs[1], &md) != nil || len(md.C) == 0 || md.C[0] == nil {
		return
	}
	u, _ := hexUnits(*md.C[0])
	return true, md.I, len(u)
}

func recordDiffEvidence(c *Case, rs *runs) {
	e0, e1 := rs[0][0].Engine, rs[0][1].Engine
	twoEngines := (e0 == "re2" && e1 == "regexp2") || (e0 == "regexp2" && e1 == "re2")
	matched, idx, m0len := firstExec(c, rs)
	nonASCIIBefore := false
	if matched {
		for i := int64(0); i < idx && int(i) < len(c.Subject); i++ {
			if c.Subject[i] >= 0x80 {
				nonASCIIBefore = true
			}
		}
	}
	nontrivial := twoEngines && len(c.Names) >= 1 && matched && (m0len > 0 || nonASCIIBefore)
	var ops []string
	for _, o := range c.Ops {
		ops = append(ops, o.Op)
	}
	text := c.PatText + "\x00" + c.Flags + "\x00" + c.SubjText + "\x00" + c.Repr + "\x00" + c.startExpr() + "\x00" + c.Variant + "\x00" + c.Deopt + "\x00" + c.Ctor + "\x00" + strings.Join(ops, ",")
	evid.Case(text, nontrivial)
	evid.Count("engines:" + e0 + "|" + e1)
	evid.Count("generic-path-standard-flag:" + map[bool]string{true: "still-standard", false: "deoptimised"}[rs[1][0].Standard] + ":" + c.Deopt)
	if c.Deopt == "proto-exec" {
		protocolOp := false
		for _, o := range c.Ops {
			if o.Op != "exec" && o.Op != "props" && o.Op != "test" {
				protocolOp = true
			}
		}
		if protocolOp {
			if rs[1][1].ExecCalls > int64(c.Ops[0].N)*2 {
				evid.Count("generic-path-confirmed-by-exec-wrapper-calls:yes")
			} else {
				evid.Count("generic-path-confirmed-by-exec-wrapper-calls:no")
			}
		}
	}
	evid.Count("subject-repr:" + rs[0][0].StrRepr)
	if c.Repr == "go" {
		if utf8Len(c.Subject) > 16 {
			evid.Count("subject-go:>16bytes")
		} else {
			evid.Count("subject-go:<=16bytes")
		}
	}
	evid.Count("flags:" + canonicalFlags(c.Flags))
	evid.Count("ctor:" + c.Ctor)
	evid.Count("variant:" + c.Variant)
	if matched {
		evid.Count("first-exec:match")
	} else {
		evid.Count("first-exec:null")
	}
	if c.has('u') && splitsPair(c.Subject, int64(c.Start)) && (c.has('g') || c.has('y')) {
		evid.Count("start:mid-pair-under-u")
	} else if splitsPair(c.Subject, int64(c.Start)) {
		evid.Count("start:mid-pair")
	}
	if !wellFormed(c.Subject) {
		evid.Count("subject:lone-surrogate")
	}
	for _, f := range features(c.AST) {
		evid.Count("feature:" + f)
	}
	for _, o := range ops {
		evid.Count("op:" + o)
	}
	evid.Sample("diff", c)
	// informative: deviations from the specification model shared by all four configurations
	if exp, ok := c.modelFirstExec(); ok {
		outs, errs, err := parseDump(rs[0][0].Dump)
		if err == nil && errs[0] == "" {
			var xs []json.RawMessage
			if json.Unmarshal(outs[0].B, &xs) == nil && len(xs) >= 3 {
				if string(xs[1]) == exp {
					evid.Count("spec-model:agrees")
				} else {
					evid.Count("spec-model:deviates(informative,not-a-verdict):" + diffDetail(json.RawMessage("["+exp+"]"), json.RawMessage("["+string(xs[1])+"]")))
				}
			}
		}
	} else {
		evid.Count("spec-model:not-applicable")
	}
}

func TestQuickDiff(t *testing.T) {
	evid.Check(t, "diff", 6000, 1.7, func(t *rapid.T) {
		c := genCase(t)
		for _, e := range c.excluded {
			evid.Excluded(e)
		}
		rs, f := c.runAll()
		if f == nil {
			recordDiffEvidence(c, &rs)
			f = c.judgeRuns(&rs)
		} else {
			evid.Case(c.PatText+"\x00"+c.Flags+"\x00"+c.SubjText, false)
			f = c.classify(f)
		}
		evid.Judge(t, f)
	})
}

func TestQuickSyntax(t *testing.T) {
	evid.Check(t, "syntax", 10000, 5, func(t *rapid.T) {
		c := genSyn(t)
		evid.Case("syn\x00"+c.PatText+"\x00"+c.Flags, !c.Valid)
		if c.Valid {
			evid.Count("syntax:valid")
		} else {
			evid.Count("syntax:invalid:" + c.Why)
		}
		evid.Sample("syntax", c)
		evid.Judge(t, judgeSyn(c))
	})
}

func TestReplay(t *testing.T) {
	p := os.Getenv("VERIF_REPLAY")
	if p == "" {
		t.Skip("no VERIF_REPLAY")
	}
	check, raw, err := evid.LoadReplay(p)
	if err != nil {
		t.Fatal(err)
	}
	switch check {
	case "diff":
		var c Case
		if err := json.Unmarshal(raw, &c); err != nil {
			t.Fatal(err)
		}
		evid.Direct(t, judgeDiff(&c))
	case "syntax":
		var c SynCase
		if err := json.Unmarshal(raw, &c); err != nil {
			t.Fatal(err)
		}
		evid.Direct(t, judgeSyn(&c))
	default:
		t.Fatalf("unknown check %q", check)
	}
}
