package c20

// A direct transcription of the ECMAScript pattern semantics (ECMA-262
// 22.2.2: CompileSubpattern / RepeatMatcher / CharacterSetMatcher /
// BackreferenceMatcher-free subset) over the generator's AST. It is NOT the
// oracle of the property (which is differential); it is used to say which of
// two disagreeing engines deviates from the specification, and to count
// deviations common to both engines for the report.
//
// Domain restriction under the i flag: Canonicalize is modelled for ASCII
// letters only; the generator guarantees that every other character occurring
// in pattern or subject has no case mapping at all.

type mstate struct {
	end  int
	caps []int // 2*(ncap+1), -1 = undefined
}

type mcont func(*mstate) *mstate
type mfn func(*mstate, mcont) *mstate

type modelBudget struct{}

type model struct {
	input   []int // code units or code points
	offs    []int // offs[i] = UTF-16 offset of input[i]; offs[len(input)] = total units
	icase   bool
	multi   bool
	dotall  bool
	unicode bool
	ncap    int
	steps   int
	limit   int
}

func (m *model) tick() {
	m.steps++
	if m.steps > m.limit {
		panic(modelBudget{})
	}
}

func isLineTerm(c int) bool { return c == '\n' || c == '\r' || c == 0x2028 || c == 0x2029 }

func isSpaceES(c int) bool {
	switch {
	case c >= 9 && c <= 13, c == 0x20, c == 0xA0, c == 0x1680, c >= 0x2000 && c <= 0x200A,
		c == 0x2028, c == 0x2029, c == 0x202F, c == 0x205F, c == 0x3000, c == 0xFEFF:
		return true
	}
	return false
}

func isWordES(c int) bool {
	return c >= 'a' && c <= 'z' || c >= 'A' && c <= 'Z' || c >= '0' && c <= '9' || c == '_'
}

func isDigitES(c int) bool { return c >= '0' && c <= '9' }

func (m *model) canon(c int) int {
	if !m.icase {
		return c
	}
	if m.unicode {
		if c >= 'A' && c <= 'Z' {
			return c + 32
		}
		return c
	}
	if c >= 'a' && c <= 'z' {
		return c - 32
	}
	return c
}

func escMatch(e string, c int) bool {
	switch e {
	case "d":
		return isDigitES(c)
	case "D":
		return !isDigitES(c)
	case "w":
		return isWordES(c)
	case "W":
		return !isWordES(c)
	case "s":
		return isSpaceES(c)
	case "S":
		return !isSpaceES(c)
	}
	panic("bad escape " + e)
}

// setMatch implements CharacterSetMatcher membership: "there exists a member a
// of A such that Canonicalize(a) is Canonicalize(ch)". For the class escapes the
// sets are closed under the modelled (ASCII) canonicalisation except \w/\W etc.
// which contain both cases of every ASCII letter, so testing ch itself is exact.
func (m *model) itemsMatch(items []Item, c int) bool {
	cc := m.canon(c)
	for _, it := range items {
		if it.Esc != "" {
			if escMatch(it.Esc, c) {
				return true
			}
			if m.icase {
				// other-case ASCII counterpart
				if c >= 'a' && c <= 'z' && escMatch(it.Esc, c-32) {
					return true
				}
				if c >= 'A' && c <= 'Z' && escMatch(it.Esc, c+32) {
					return true
				}
			}
			continue
		}
		if c >= it.Lo && c <= it.Hi {
			return true
		}
		if m.icase {
			// any a in [Lo,Hi] with canon(a)==cc: only ASCII letters have a counterpart
			for _, alt := range []int{cc, cc + 32, cc - 32} {
				if alt >= it.Lo && alt <= it.Hi && m.canon(alt) == cc {
					return true
				}
			}
		}
	}
	return false
}

func (m *model) compile(n *Node, parenIndex *int) mfn {
	switch n.K {
	case "seq":
		var ms []mfn
		for _, k := range n.Kids {
			ms = append(ms, m.compile(k, parenIndex))
		}
		return func(x *mstate, c mcont) *mstate {
			var run func(i int, x *mstate) *mstate
			run = func(i int, x *mstate) *mstate {
				if i == len(ms) {
					return c(x)
				}
				return ms[i](x, func(y *mstate) *mstate { return run(i+1, y) })
			}
			return run(0, x)
		}
	case "alt":
		var ms []mfn
		for _, k := range n.Kids {
			ms = append(ms, m.compile(k, parenIndex))
		}
		return func(x *mstate, c mcont) *mstate {
			for _, a := range ms {
				m.tick()
				if r := a(x, c); r != nil {
					return r
				}
			}
			return nil
		}
	case "chr":
		ch := n.C
		return m.charSet(func(c int) bool { return m.canon(c) == m.canon(ch) })
	case "any":
		return m.charSet(func(c int) bool { return m.dotall || !isLineTerm(c) })
	case "esc":
		e := n.Esc
		return m.charSet(func(c int) bool {
			if escMatch(e, c) {
				return true
			}
			return false
		})
	case "cls":
		items, neg := n.Items, n.Neg
		return m.charSet(func(c int) bool { return m.itemsMatch(items, c) != neg })
	case "bol":
		return func(x *mstate, c mcont) *mstate {
			m.tick()
			e := x.end
			if e == 0 || m.multi && isLineTerm(m.input[e-1]) {
				return c(x)
			}
			return nil
		}
	case "eol":
		return func(x *mstate, c mcont) *mstate {
			m.tick()
			e := x.end
			if e == len(m.input) || m.multi && isLineTerm(m.input[e]) {
				return c(x)
			}
			return nil
		}
	case "wb", "nwb":
		want := n.K == "wb"
		return func(x *mstate, c mcont) *mstate {
			m.tick()
			e := x.end
			a := e > 0 && isWordES(m.input[e-1])
			b := e < len(m.input) && isWordES(m.input[e])
			if (a != b) == want {
				return c(x)
			}
			return nil
		}
	case "cap":
		*parenIndex++
		idx := *parenIndex
		inner := m.compile(n.Kids[0], parenIndex)
		return func(x *mstate, c mcont) *mstate {
			m.tick()
			return inner(x, func(y *mstate) *mstate {
				caps := append([]int(nil), y.caps...)
				caps[2*idx] = x.end
				caps[2*idx+1] = y.end
				return c(&mstate{end: y.end, caps: caps})
			})
		}
	case "ncap":
		return m.compile(n.Kids[0], parenIndex)
	case "quant":
		pIdx := *parenIndex
		inner := m.compile(n.Kids[0], parenIndex)
		pCount := *parenIndex - pIdx
		min, max, greedy := n.Min, n.Max, !n.Lazy
		var repeat func(min, max int, x *mstate, c mcont) *mstate
		repeat = func(min, max int, x *mstate, c mcont) *mstate {
			m.tick()
			if max == 0 {
				return c(x)
			}
			d := func(y *mstate) *mstate {
				if min == 0 && y.end == x.end {
					return nil
				}
				min2 := 0
				if min > 0 {
					min2 = min - 1
				}
				max2 := max
				if max > 0 {
					max2 = max - 1
				}
				return repeat(min2, max2, y, c)
			}
			caps := x.caps
			if pCount > 0 {
				caps = append([]int(nil), x.caps...)
				for k := pIdx + 1; k <= pIdx+pCount; k++ {
					caps[2*k], caps[2*k+1] = -1, -1
				}
			}
			xr := &mstate{end: x.end, caps: caps}
			if min != 0 {
				return inner(xr, d)
			}
			if !greedy {
				if z := c(x); z != nil {
					return z
				}
				return inner(xr, d)
			}
			if z := inner(xr, d); z != nil {
				return z
			}
			return c(x)
		}
		return func(x *mstate, c mcont) *mstate { return repeat(min, max, x, c) }
	}
	panic("model: bad node " + n.K)
}

func (m *model) charSet(pred func(int) bool) mfn {
	return func(x *mstate, c mcont) *mstate {
		m.tick()
		e := x.end
		if e >= len(m.input) {
			return nil
		}
		if !pred(m.input[e]) {
			return nil
		}
		return c(&mstate{end: e + 1, caps: x.caps})
	}
}

// ModelResult is the outcome of the spec matcher for one exec.
type ModelResult struct {
	Known bool  `json:"known"` // false: budget exceeded or outside the modelled domain
	Match bool  `json:"match"`
	Caps  []int `json:"caps,omitempty"` // UTF-16 offsets, pairs, -1 = undefined
}

// modelExec models RegExpBuiltinExec's matching part: first match at or after
// start (only at start when sticky) on subject units.
func modelExec(ast *Node, flags string, subject []uint16, start int, sticky bool) (res ModelResult) {
	m := &model{limit: 400000}
	for _, f := range flags {
		switch f {
		case 'i':
			m.icase = true
		case 'm':
			m.multi = true
		case 's':
			m.dotall = true
		case 'u':
			m.unicode = true
		}
	}
	if m.unicode {
		for i := 0; i < len(subject); i++ {
			c := int(subject[i])
			m.offs = append(m.offs, i)
			if isHigh(c) && i+1 < len(subject) && isLow(int(subject[i+1])) {
				c = 0x10000 + (c-0xD800)<<10 + (int(subject[i+1]) - 0xDC00)
				i++
			}
			m.input = append(m.input, c)
		}
	} else {
		for i, c := range subject {
			m.input = append(m.input, int(c))
			m.offs = append(m.offs, i)
		}
	}
	m.offs = append(m.offs, len(subject))
	// map start
	si := -1
	for i, o := range m.offs {
		if o == start {
			si = i
		}
	}
	if si < 0 {
		return ModelResult{} // start splits a pair in unicode mode: not modelled
	}
	pi := 0
	ncap := len(captureNames(ast))
	m.ncap = ncap
	fn := m.compile(ast, &pi)
	defer func() {
		if p := recover(); p != nil {
			if _, ok := p.(modelBudget); ok {
				res = ModelResult{}
				return
			}
			panic(p)
		}
	}()
	for i := si; i <= len(m.input); i++ {
		caps := make([]int, 2*(ncap+1))
		for k := range caps {
			caps[k] = -1
		}
		r := fn(&mstate{end: i, caps: caps}, func(y *mstate) *mstate { return y })
		if r != nil {
			out := append([]int(nil), r.caps...)
			out[0], out[1] = i, r.end
			for k, v := range out {
				if v >= 0 {
					out[k] = m.offs[v]
				}
			}
			return ModelResult{Known: true, Match: true, Caps: out}
		}
		if sticky {
			break
		}
	}
	return ModelResult{Known: true}
}
