package c20

import (
	"fmt"
	"strings"
	"unicode"
)

// Node is the pattern AST the generator builds. It is restricted to syntax
// whose meaning is fixed by ECMAScript (22.2.2) and which both goja engines are
// expected to implement: literals, classes, \d\w\s\b\B (and negations),
// '.', anchors, groups (capturing / non-capturing / named), alternation,
// greedy and lazy quantifiers with small bounds.
//
// In non-unicode mode a "chr" denotes one UTF-16 code unit, in unicode mode one
// code point (lone surrogates are code points of their own).
type Node struct {
	K     string  `json:"k"` // seq alt chr any esc cls bol eol wb nwb cap ncap quant
	Kids  []*Node `json:"kids,omitempty"`
	C     int     `json:"c,omitempty"`  // chr: code unit / code point
	Pr    string  `json:"pr,omitempty"` // chr print style (raw u4 ub x2 ctl cc id pair)
	Esc   string  `json:"esc,omitempty"`
	Neg   bool    `json:"neg,omitempty"`
	Items []Item  `json:"items,omitempty"`
	Min   int     `json:"min,omitempty"`
	Max   int     `json:"max,omitempty"` // -1 = unbounded
	Lazy  bool    `json:"lazy,omitempty"`
	QPr   string  `json:"qpr,omitempty"` // quantifier print style: * + ? n n, n,m
	Name  string  `json:"name,omitempty"`
}

// Item is one member of a character class: a single character, a range or a
// class escape (d D w W s S).
type Item struct {
	Lo   int    `json:"lo"`
	Hi   int    `json:"hi"`
	Esc  string `json:"esc,omitempty"`
	PrLo string `json:"prlo,omitempty"`
	PrHi string `json:"prhi,omitempty"`
}

func isHigh(c int) bool { return c >= 0xD800 && c <= 0xDBFF }
func isLow(c int) bool  { return c >= 0xDC00 && c <= 0xDFFF }

// printer turns the AST into pattern source (UTF-16 code units, because the
// source handed to the RegExp constructor may itself contain lone surrogates).
type printer struct {
	out     []uint16
	unicode bool
	// last printed token was a lone high surrogate (escape or raw): a following
	// low surrogate would fuse with it into one code point in unicode mode (or,
	// when raw, in the source text), so a neutral (?:) is put in between.
	lastLoneHigh bool
}

func (p *printer) str(s string) {
	for _, r := range s {
		if r > 0xFFFF {
			r -= 0x10000
			p.out = append(p.out, uint16(0xD800+(r>>10)), uint16(0xDC00+(r&0x3FF)))
		} else {
			p.out = append(p.out, uint16(r))
		}
	}
	p.lastLoneHigh = false
}

const syntaxChars = `^$\.*+?()[]{}|/`

func (p *printer) chr(c int, style string, inClass bool) {
	if p.unicode && isLow(c) && p.lastLoneHigh {
		if inClass {
			// cannot be separated inside a class; the generator never produces this adjacency
			panic("c20 generator: lone high surrogate followed by lone low surrogate inside a class")
		}
		p.str("(?:)")
	}
	loneHigh := isHigh(c)
	switch style {
	case "u4":
		if c > 0xFFFF {
			cc := c - 0x10000
			p.str(fmt.Sprintf(`\u%04X\u%04X`, 0xD800+(cc>>10), 0xDC00+(cc&0x3FF)))
		} else {
			p.str(fmt.Sprintf(`\u%04x`, c))
		}
	case "ub":
		p.str(fmt.Sprintf(`\u{%x}`, c))
	case "x2":
		p.str(fmt.Sprintf(`\x%02x`, c))
	case "ctl":
		switch c {
		case '\n':
			p.str(`\n`)
		case '\r':
			p.str(`\r`)
		case '\t':
			p.str(`\t`)
		case '\f':
			p.str(`\f`)
		case '\v':
			p.str(`\v`)
		default:
			p.str(fmt.Sprintf(`\x%02x`, c))
		}
	case "cc":
		p.str(`\c` + string(rune('A'+c-1)))
	case "ccl":
		p.str(`\c` + string(rune('a'+c-1)))
	case "id":
		p.str(`\` + string(rune(c)))
	case "bs":
		p.str(`\b`)
	default: // raw
		if c > 0xFFFF {
			cc := c - 0x10000
			p.out = append(p.out, uint16(0xD800+(cc>>10)), uint16(0xDC00+(cc&0x3FF)))
		} else {
			p.out = append(p.out, uint16(c))
		}
	}
	p.lastLoneHigh = loneHigh
}

func (p *printer) node(n *Node) {
	switch n.K {
	case "seq":
		for _, k := range n.Kids {
			p.node(k)
		}
	case "alt":
		for i, k := range n.Kids {
			if i > 0 {
				p.str("|")
			}
			p.node(k)
		}
	case "chr":
		p.chr(n.C, n.Pr, false)
	case "any":
		p.str(".")
	case "esc":
		p.str(`\` + n.Esc)
	case "bol":
		p.str("^")
	case "eol":
		p.str("$")
	case "wb":
		p.str(`\b`)
	case "nwb":
		p.str(`\B`)
	case "cls":
		if n.Neg {
			p.str("[^")
		} else {
			p.str("[")
		}
		for _, it := range n.Items {
			if it.Esc != "" {
				p.str(`\` + it.Esc)
				continue
			}
			p.chr(it.Lo, it.PrLo, true)
			if it.Hi != it.Lo || it.PrHi != "" {
				p.str("-")
				p.chr(it.Hi, it.PrHi, true)
			}
		}
		p.str("]")
	case "cap":
		if n.Name != "" {
			p.str("(?<" + n.Name + ">")
		} else {
			p.str("(")
		}
		p.node(n.Kids[0])
		p.str(")")
	case "ncap":
		p.str("(?:")
		p.node(n.Kids[0])
		p.str(")")
	case "quant":
		p.node(n.Kids[0])
		switch n.QPr {
		case "*", "+", "?":
			p.str(n.QPr)
		case "n":
			p.str(fmt.Sprintf("{%d}", n.Min))
		case "n,":
			p.str(fmt.Sprintf("{%d,}", n.Min))
		default:
			p.str(fmt.Sprintf("{%d,%d}", n.Min, n.Max))
		}
		if n.Lazy {
			p.str("?")
		}
	default:
		panic("bad node kind " + n.K)
	}
}

// PrintPattern renders the AST as pattern source code units.
func PrintPattern(n *Node, unicode bool) []uint16 {
	p := &printer{unicode: unicode}
	p.node(n)
	return p.out
}

// walk visits nodes in source order (pre-order).
func walk(n *Node, f func(*Node)) {
	f(n)
	for _, k := range n.Kids {
		walk(k, f)
	}
}

// captureNames returns, per capture group in left-paren order, its name ("" if unnamed).
func captureNames(n *Node) []string {
	var res []string
	walk(n, func(x *Node) {
		if x.K == "cap" {
			res = append(res, x.Name)
		}
	})
	return res
}

// features lists construct labels of a pattern, for evidence class counters
// and for narrow failure keys.
func features(n *Node) []string {
	set := map[string]bool{}
	var rec func(x *Node, qdepth int)
	rec = func(x *Node, qdepth int) {
		switch x.K {
		case "alt":
			set["alt"] = true
			for _, k := range x.Kids {
				if k.K == "seq" && len(k.Kids) == 0 {
					set["emptyalt"] = true
				}
			}
		case "chr":
			switch {
			case x.C > 0xFFFF:
				set["astral-lit"] = true
			case x.C >= 0xD800 && x.C <= 0xDFFF:
				set["surrogate-lit"] = true
			case x.C >= 0x80:
				set["nonascii-lit"] = true
			}
			if x.Pr == "id" && (x.C >= 'a' && x.C <= 'z' || x.C >= 'A' && x.C <= 'Z') {
				set["annexb-idescape"] = true
			}
		case "any":
			set["dot"] = true
		case "esc":
			set["esc-"+x.Esc] = true
		case "cls":
			if x.Neg {
				set["negclass"] = true
			} else {
				set["class"] = true
			}
			for _, it := range x.Items {
				if it.Esc != "" {
					set["class-esc-"+it.Esc] = true
				} else if it.Hi != it.Lo {
					set["range"] = true
				}
				if it.Hi > 0xFFFF {
					set["class-astral"] = true
				}
			}
		case "bol", "eol":
			set["anchor"] = true
		case "wb", "nwb":
			set["wordb"] = true
		case "cap":
			if x.Name != "" {
				set["named"] = true
			} else {
				set["cap"] = true
			}
			if qdepth > 0 {
				set["cap-in-quant"] = true
			}
		case "quant":
			if x.Lazy {
				set["lazy"] = true
			} else {
				set["greedy"] = true
			}
			if qdepth > 0 {
				set["nested-quant"] = true
			}
			qdepth++
		}
		for _, k := range x.Kids {
			rec(k, qdepth)
		}
	}
	rec(n, 0)
	var res []string
	for _, k := range []string{"alt", "emptyalt", "astral-lit", "surrogate-lit", "nonascii-lit", "annexb-idescape", "dot",
		"esc-d", "esc-D", "esc-w", "esc-W", "esc-s", "esc-S", "class", "negclass", "range", "class-astral",
		"class-esc-d", "class-esc-D", "class-esc-w", "class-esc-W", "class-esc-s", "class-esc-S",
		"anchor", "wordb", "cap", "named", "cap-in-quant", "greedy", "lazy", "nested-quant"} {
		if set[k] {
			res = append(res, k)
		}
	}
	return res
}

// starHeight is the nesting depth of unbounded (or large) quantifiers; used to
// bound subject length so that backtracking stays cheap.
func starHeight(n *Node) int {
	h := 0
	for _, k := range n.Kids {
		if kh := starHeight(k); kh > h {
			h = kh
		}
	}
	if n.K == "quant" && (n.Max < 0 || n.Max > 1) {
		h++
	}
	return h
}

func unitsToDebug(u []uint16) string {
	var sb strings.Builder
	for _, c := range u {
		if c >= 0x20 && c < 0x7f {
			sb.WriteByte(byte(c))
		} else {
			fmt.Fprintf(&sb, "\\u%04x", c)
		}
	}
	return sb.String()
}

// ---- known-defect input classes -------------------------------------------------
//
// Each predicate names an input class for which goja is known to deviate (see
// known_findings.json). The generator rewrites almost all members of such a
// class into an equivalent pattern outside the class (counted as excluded) and
// lets a small share through; the judge files every failure of a case inside
// the class under the class key, so that failures outside it keep their own keys.

func isSurr(c int) bool { return c >= 0xD800 && c <= 0xDFFF }

// charAtom unwraps a quantifier and returns the literal or class below it.
func charAtom(k *Node) *Node {
	if k.K == "quant" {
		k = k.Kids[0]
	}
	if k.K == "chr" || k.K == "cls" {
		return k
	}
	return nil
}

// mentionsSurrogate: a literal surrogate, or a class with a member / range
// lying inside U+D800..U+DFFF.
func mentionsSurrogate(k *Node) bool {
	if k.K == "chr" {
		return isSurr(k.C)
	}
	for _, it := range k.Items {
		if it.Esc == "" && isSurr(it.Lo) && isSurr(it.Hi) {
			return true
		}
	}
	return false
}

// hasSurrogateRun: two adjacent literal/class atoms of which at least one
// mentions a UTF-16 surrogate. regexp2 v2.5.2 is built for rune input decoded
// from Go strings: it keeps search literals as Go strings (which cannot carry
// surrogates) and does not match a high-surrogate atom followed by a
// low-surrogate atom against two separate units, so on goja's UTF-16 rune
// input such patterns never match: /(?=)[\ud800-\udbff][\udc00-\udfff]/
// and /.\ud83d\ude00(?=)/ are null on "a\u{1F600}".
func hasSurrogateRun(n *Node) bool {
	found := false
	walk(n, func(x *Node) {
		if x.K != "seq" {
			return
		}
		for i := 0; i+1 < len(x.Kids); i++ {
			a, b := charAtom(x.Kids[i]), charAtom(x.Kids[i+1])
			if a != nil && b != nil && (mentionsSurrogate(a) || mentionsSurrogate(b)) {
				found = true
			}
		}
	})
	return found
}

// breakSurrogateRuns replaces the right-hand atom of every such adjacency: by
// a BMP literal when it mentions a surrogate itself, by \S otherwise.
func breakSurrogateRuns(n *Node) {
	walk(n, func(x *Node) {
		if x.K != "seq" {
			return
		}
		for i := 0; i+1 < len(x.Kids); i++ {
			a, b := charAtom(x.Kids[i]), charAtom(x.Kids[i+1])
			if a == nil || b == nil || !(mentionsSurrogate(a) || mentionsSurrogate(b)) {
				continue
			}
			if mentionsSurrogate(b) {
				*b = Node{K: "chr", C: 0x3042, Pr: "u4"}
			} else {
				*b = Node{K: "esc", Esc: "S"}
			}
		}
	})
}

// unicodeWordNotES: characters regexp2 v2.5.2 counts as word characters for \b / \B
// (Unicode categories L, Mn, Nd, Pc) although ECMAScript's IsWordChar is ASCII-only.
func unicodeWordNotES(c int) bool {
	return c >= 0x80 && unicode.In(rune(c), unicode.L, unicode.Mn, unicode.Nd, unicode.Pc)
}

func hasWordBoundary(n *Node) bool {
	found := false
	walk(n, func(x *Node) {
		if x.K == "wb" || x.K == "nwb" {
			found = true
		}
	})
	return found
}

// subjectHasUnicodeWord looks at the subject the way the engine sees it: code
// units without the u flag, code points with it.
func subjectHasUnicodeWord(u []uint16, unicodeMode bool) bool {
	for i := 0; i < len(u); i++ {
		c := int(u[i])
		if unicodeMode && isHigh(c) && i+1 < len(u) && isLow(int(u[i+1])) {
			c = 0x10000 + (c-0xD800)<<10 + int(u[i+1]) - 0xDC00
			i++
		}
		if unicodeWordNotES(c) {
			return true
		}
	}
	return false
}

// knownClass returns the key of the known-defect input class the case belongs to, or "".
func (c *Case) knownClass() string {
	if c.AST == nil {
		return ""
	}
	if hasSurrogateRun(c.AST) {
		return "class:regexp2-adjacent-surrogate-atoms"
	}
	if hasWordBoundary(c.AST) && subjectHasUnicodeWord(c.Subject, c.has('u')) {
		return "class:regexp2-unicode-word-boundary"
	}
	if hasKind(c.AST, "nwb") && hasGreedySimpleLoop(c.AST) {
		return "class:regexp2-greedy-loop-before-nonboundary"
	}
	if hasLiteral(c.AST, 0xFFFF) {
		return "class:regexp2-literal-ffff"
	}
	if hasNullableLoopWithCapture(c.AST) {
		return "class:empty-iteration-capture"
	}
	if hasEscapedDashRangeEnd(c.AST) {
		return "class:regexp2-escaped-dash-range-endpoint"
	}
	if c.has('u') && hasEmptyClass(c.AST) && subjectHasCPAbove(c.Subject, 0x1FFFF) {
		return "class:re2-empty-class-above-1ffff"
	}
	if hasNotDigitBeforeItem(c.AST) {
		return "class:regexp2-class-notdigit-then-item"
	}
	if !c.has('s') && hasKind(c.AST, "any") && subjectHasLSPS(c.Subject) {
		return "class:regexp2-dot-matches-ls-ps"
	}
	if dev, _ := c.regexp2LibraryDeviates(); dev {
		return "class:regexp2-library-deviates-from-ecmascript"
	}
	return ""
}

func hasKind(n *Node, k string) bool {
	found := false
	walk(n, func(x *Node) {
		if x.K == k {
			found = true
		}
	})
	return found
}

func subjectHasLSPS(u []uint16) bool {
	for _, c := range u {
		if c == 0x2028 || c == 0x2029 {
			return true
		}
	}
	return false
}

// hasNotDigitBeforeItem: a class in which \D is followed by a further member.
// regexp2 v2.5.2 then subtracts the later members instead of adding them:
// [\Da] does not match "a".
func hasNotDigitBeforeItem(n *Node) bool {
	found := false
	walk(n, func(x *Node) {
		if x.K != "cls" {
			return
		}
		for i, it := range x.Items {
			if it.Esc == "D" && i < len(x.Items)-1 {
				found = true
			}
		}
	})
	return found
}

// moveNotDigitLast reorders class members (a class is a union, the order is
// irrelevant in ECMAScript) so that \D comes last.
func moveNotDigitLast(n *Node) {
	walk(n, func(x *Node) {
		if x.K != "cls" {
			return
		}
		var rest, nd []Item
		for _, it := range x.Items {
			if it.Esc == "D" {
				nd = append(nd, it)
			} else {
				rest = append(rest, it)
			}
		}
		if len(nd) > 1 {
			nd = nd[:1]
		}
		x.Items = append(rest, nd...)
	})
}

// hasGreedySimpleLoop: a greedy quantifier (that can give back: max > min)
// over a single-character atom. Together with a \B somewhere in the pattern
// regexp2 v2.5.2 may make such a loop atomic although giving back one character
// would satisfy \B: /(?=)\*+\B/.exec("**a") is null (spec: "*").
func hasGreedySimpleLoop(n *Node) bool {
	found := false
	walk(n, func(x *Node) {
		if x.K == "quant" && !x.Lazy && (x.Max < 0 || x.Max > x.Min) {
			switch x.Kids[0].K {
			case "chr", "cls", "esc", "any":
				found = true
			}
		}
	})
	return found
}

func hasLiteral(n *Node, c int) bool {
	found := false
	walk(n, func(x *Node) {
		if x.K == "chr" && x.C == c {
			found = true
		}
	})
	return found
}

// nullable reports whether the node can match the empty string.
func nullable(n *Node) bool {
	switch n.K {
	case "seq":
		for _, k := range n.Kids {
			if !nullable(k) {
				return false
			}
		}
		return true
	case "alt":
		for _, k := range n.Kids {
			if nullable(k) {
				return true
			}
		}
		return false
	case "chr", "any", "esc", "cls":
		return false
	case "cap", "ncap":
		return nullable(n.Kids[0])
	case "quant":
		return n.Min == 0 || nullable(n.Kids[0])
	}
	return true // assertions
}

// hasNullableLoopWithCapture: a quantifier with max > min whose body can match
// the empty string and contains a capture group. ECMAScript (RepeatMatcher
// step 2.b) rejects an empty iteration once min is satisfied, so captures set
// in such an iteration are never observable; regexp2 (and, for some shapes, the
// RE2 simplifier) accept one: /(?=)(a?)+/ style patterns report "" instead of the
// capture of the last non-empty iteration / undefined.
func hasNullableLoopWithCapture(n *Node) bool {
	found := false
	walk(n, func(x *Node) {
		if x.K == "quant" && (x.Max < 0 || x.Max > x.Min) && nullable(x.Kids[0]) && hasKind(x.Kids[0], "cap") {
			found = true
		}
	})
	return found
}

// uncaptureNullableLoops turns the capture groups inside such loops into non-capturing groups.
func uncaptureNullableLoops(n *Node) {
	walk(n, func(x *Node) {
		if x.K == "quant" && (x.Max < 0 || x.Max > x.Min) && nullable(x.Kids[0]) {
			walk(x.Kids[0], func(y *Node) {
				if y.K == "cap" {
					y.K = "ncap"
					y.Name = ""
				}
			})
		}
	})
}

// hasEscapedDashRangeEnd: a class range one of whose endpoints is written \-.
// regexp2 v2.5.2 does not read [\--a] or [+-\-] as ranges.
func hasEscapedDashRangeEnd(n *Node) bool {
	found := false
	walk(n, func(x *Node) {
		if x.K != "cls" {
			return
		}
		for _, it := range x.Items {
			if it.Esc == "" && (it.Hi != it.Lo || it.PrHi != "") && (it.Lo == '-' && it.PrLo == "id" || it.Hi == '-' && it.PrHi == "id") {
				found = true
			}
		}
	})
	return found
}

func fixEscapedDashRangeEnd(n *Node) {
	walk(n, func(x *Node) {
		if x.K != "cls" {
			return
		}
		for i := range x.Items {
			it := &x.Items[i]
			if it.Esc == "" && (it.Hi != it.Lo || it.PrHi != "") {
				if it.Lo == '-' && it.PrLo == "id" {
					it.PrLo = "x2"
				}
				if it.Hi == '-' && it.PrHi == "id" {
					it.PrHi = "x2"
				}
			}
		}
	})
}

// hasEmptyClass: [] or [^]. The RE2 translation writes them as
// [^\x00-\x{1FFFF}] / [\x00-\x{1FFFF}] (pinned by parser/regexp_test.go), so
// with the u flag [] matches, and [^] misses, code points above U+1FFFF.
func hasEmptyClass(n *Node) bool {
	found := false
	walk(n, func(x *Node) {
		if x.K == "cls" && len(x.Items) == 0 {
			found = true
		}
	})
	return found
}

func subjectHasCPAbove(u []uint16, lim int) bool {
	for i := 0; i+1 < len(u); i++ {
		if isHigh(int(u[i])) && isLow(int(u[i+1])) {
			if 0x10000+(int(u[i])-0xD800)<<10+int(u[i+1])-0xDC00 > lim {
				return true
			}
		}
	}
	return false
}
