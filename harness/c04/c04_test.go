package c04

import (
	"encoding/json"
	"fmt"
	"os"
	"strconv"
	"strings"
	"testing"

	"github.com/dop251/goja"
	"pgregory.net/rapid"

	"verifh/internal/esmodel"
	"verifh/internal/evid"
	"verifh/internal/jsx"
)

func TestMain(m *testing.M) { evid.Main("C04", m) }

var preludePrg = goja.MustCompile("c04prelude.js", esmodel.PreludeJS, false)

// Subject is one object of a case.
type Subject struct {
	Tag  int    `json:"tag"`
	Kind string `json:"kind"`
}

type Case struct {
	Subjects []Subject     `json:"subjects"`
	Ops      []*esmodel.Op `json:"ops"`

	// generation only: a focused case draws its keys from a pool of 2-3 and prefers the subjects as receivers, so that
	// operations collide on the same property (define non-writable, then Reflect.set through another receiver, ...)
	focus []string
}

var modelledKinds = []string{"plain", "plainp", "nullproto", "func", "strictfunc", "arrow", "bound", "class", "method", "genfunc", "asyncfunc",
	"array", "arrayholes", "arraysparse", "arrayempty", "args", "argsstrict", "string", "number", "boolean", "symbolobj", "date", "regexp", "error", "map", "promise",
	"Math", "JSON", "Reflect", "arraybuffer", "generator", "objectproto"}

func modelKind(kind string) string {
	switch kind {
	case "array", "arrayholes", "arraysparse", "arrayempty":
		return "array"
	case "string":
		return "string"
	case "args":
		return "arguments"
	}
	return "ordinary"
}

var keyPool = []string{`s:"a"`, `s:"b"`, `s:"length"`, `s:"0"`, `s:"1"`, `s:"2"`, `s:"3"`, `s:"7"`, `s:"5000"`, `s:"4294967294"`, `s:"4294967295"`, `s:"-0"`, `s:"1.5"`, `s:"01"`, `s:"1e21"`,
	`s:"prototype"`, `s:"name"`, `s:"constructor"`, `s:"__proto__"`, `s:"toString"`, `s:"x"`, `s:"acc"`, `s:"lastIndex"`, `s:"message"`, `s:"caller"`, `s:"arguments"`, `s:"callee"`, `s:"PI"`, `s:"max"`, `s:""`,
	"y:0", "y:1", "y:2", "y:3"}

var primVals = []string{"u", "null", "b:true", "b:false", "d:0", "d:-0", "d:1", "d:2", "d:5", "d:NaN", `s:""`, `s:"v"`, `s:"7"`, "y:0"}

func genKey(t *rapid.T, c *Case) string {
	if len(c.focus) > 0 && rapid.IntRange(0, 9).Draw(t, "fkey") > 0 {
		return rapid.SampledFrom(c.focus).Draw(t, "focuskey")
	}
	return rapid.SampledFrom(keyPool).Draw(t, "key")
}

func genVal(t *rapid.T, c *Case) string {
	if len(c.focus) > 0 && rapid.IntRange(0, 2).Draw(t, "fval") == 0 {
		return "o:" + strconv.Itoa(c.Subjects[rapid.IntRange(0, len(c.Subjects)-1).Draw(t, "fvsubj")].Tag)
	}
	switch rapid.IntRange(0, 5).Draw(t, "vk") {
	case 0:
		return "o:" + strconv.Itoa(c.Subjects[rapid.IntRange(0, len(c.Subjects)-1).Draw(t, "vsubj")].Tag)
	case 1:
		return rapid.SampledFrom([]string{"o:900", "o:901", "o:910", "o:911"}).Draw(t, "vfn")
	}
	return rapid.SampledFrom(primVals).Draw(t, "vprim")
}

func mustVal(s string) esmodel.Val {
	v, err := esmodel.ParseVal(s)
	if err != nil {
		panic(err)
	}
	return v
}

func genDesc(t *rapid.T, c *Case) *esmodel.Desc {
	d := &esmodel.Desc{Value: esmodel.Undef, Get: esmodel.Undef, Set: esmodel.Undef}
	form := rapid.IntRange(0, 9).Draw(t, "dform")
	bits := rapid.IntRange(0, 63).Draw(t, "dbits")
	switch {
	case form <= 3: // data-ish: drop accessor fields
		bits &^= 4 | 8
	case form <= 6: // accessor-ish
		bits &^= 1 | 2
	}
	if bits&1 != 0 {
		d.HasValue = true
		d.Value = mustVal(genVal(t, c))
	}
	if bits&2 != 0 {
		d.HasW = true
		d.W = rapid.Bool().Draw(t, "w")
	}
	if bits&4 != 0 {
		d.HasGet = true
		d.Get = mustVal(rapid.SampledFrom([]string{"u", "o:900", "o:901"}).Draw(t, "g"))
	}
	if bits&8 != 0 {
		d.HasSet = true
		d.Set = mustVal(rapid.SampledFrom([]string{"u", "o:910", "o:911"}).Draw(t, "s"))
	}
	if bits&16 != 0 {
		d.HasE = true
		d.E = rapid.Bool().Draw(t, "e")
	}
	if bits&32 != 0 {
		d.HasC = true
		d.C = rapid.Bool().Draw(t, "c")
	}
	return d
}

var opKinds = []string{"define", "define", "define", "define", "get", "get", "set", "set", "set", "delete", "delete", "has", "hasOwn", "gopd", "gopd", "ownKeys", "names", "symbols", "keys",
	"preventExt", "seal", "freeze", "isExt", "isSealed", "isFrozen", "getProto", "setProto", "setProto", "forin", "forin2", "assign", "defprops"}

var focusOpKinds = []string{"defprops", "forin2", "define", "define", "define", "set", "set", "set", "set", "get", "delete", "gopd", "setProto", "preventExt", "freeze", "seal", "ownKeys", "has"}

func genOp(t *rapid.T, c *Case) *esmodel.Op {
	kinds := opKinds
	if len(c.focus) > 0 && rapid.IntRange(0, 3).Draw(t, "fop") > 0 {
		kinds = focusOpKinds
	}
	op := &esmodel.Op{Op: rapid.SampledFrom(kinds).Draw(t, "op")}
	subj := c.Subjects[rapid.IntRange(0, len(c.Subjects)-1).Draw(t, "subj")]
	op.O = subj.Tag
	op.Surf = rapid.SampledFrom([]string{"strict", "sloppy", "Object", "Reflect"}).Draw(t, "surf")
	if len(c.focus) > 0 && (op.Op == "set" || op.Op == "get") && rapid.Bool().Draw(t, "fsurf") {
		op.Surf = "Reflect"
	}
	switch op.Op {
	case "defprops":
		// 2-3 entries in the order the property list object enumerates them: array indices ascending, then strings in
		// creation order, then symbols
		op.Surf = "Object"
		pool := []string{`s:"0"`, `s:"1"`, `s:"a"`, `s:"b"`, "y:0"}
		var picked []string
		for _, k := range pool {
			if rapid.IntRange(0, 1).Draw(t, "dpk") == 0 {
				picked = append(picked, k)
			}
		}
		if len(picked) < 2 {
			picked = []string{`s:"a"`, `s:"b"`}
		}
		for _, k := range picked {
			op.L = append(op.L, esmodel.KD{K: k, D: genDesc(t, c)})
		}
		if rapid.IntRange(0, 2).Draw(t, "dpbad") == 0 {
			// a later entry that is not a valid descriptor: accessor and data fields mixed
			bad := op.L[len(op.L)-1].D
			bad.HasGet, bad.Get = true, mustVal("o:900")
			bad.HasValue, bad.Value = true, mustVal("d:1")
		}
	case "define":
		op.K = genKey(t, c)
		op.D = genDesc(t, c)
		if op.Surf == "strict" || op.Surf == "sloppy" {
			op.Surf = "Object"
		}
		// array length values that make sense more often
		if op.K == `s:"length"` && op.D.HasValue && rapid.Bool().Draw(t, "lenval") {
			op.D.Value = esmodel.Num(float64(rapid.SampledFrom([]int{0, 1, 2, 3, 4, 5000, 5001}).Draw(t, "len")))
		}
	case "get":
		op.K = genKey(t, c)
		if op.Surf == "Reflect" && rapid.Bool().Draw(t, "recv") {
			op.R = genVal(t, c)
		} else if op.Surf != "Reflect" {
			op.Surf = "strict"
		}
	case "set":
		op.K = genKey(t, c)
		op.V = genVal(t, c)
		if op.Surf == "Object" {
			op.Surf = "strict"
		}
		if op.Surf == "Reflect" && rapid.IntRange(0, 2).Draw(t, "recv") > 0 {
			op.R = genVal(t, c)
		}
		if op.K == `s:"length"` && rapid.Bool().Draw(t, "lenval") {
			op.V = "d:" + strconv.Itoa(rapid.SampledFrom([]int{0, 1, 2, 3, 4, 5000, 5001}).Draw(t, "len"))
		}
		if op.K == `s:"length"` && modelKind(subj.Kind) == "array" && op.R == "" && rapid.IntRange(0, 2).Draw(t, "advlen") == 0 {
			// the new length is an object whose valueOf changes the array while it is being converted
			adv := esmodel.Op{O: subj.Tag, Surf: "Reflect"}
			switch rapid.IntRange(0, 3).Draw(t, "advop") {
			case 0:
				adv.Op, adv.K, adv.D = "define", `s:"length"`, &esmodel.Desc{HasW: true, W: false, Value: esmodel.Undef, Get: esmodel.Undef, Set: esmodel.Undef}
			case 1:
				adv.Op = "preventExt"
			case 2:
				adv.Op, adv.K, adv.D = "define", `s:"1"`, &esmodel.Desc{HasValue: true, Value: esmodel.Num(7), HasC: true, C: false, Get: esmodel.Undef, Set: esmodel.Undef}
			default:
				adv.Op = "freeze"
				adv.Surf = "Object"
			}
			b, _ := json.Marshal(&adv)
			op.V = "a:" + strconv.Itoa(rapid.SampledFrom([]int{0, 1, 2, 5, 5000}).Draw(t, "advret")) + "|" + string(b)
		}
	case "delete":
		op.K = genKey(t, c)
		if op.Surf == "Object" {
			op.Surf = "strict"
		}
	case "has", "hasOwn", "gopd":
		op.K = genKey(t, c)
		if op.Surf != "Reflect" {
			op.Surf = "Object"
		}
	case "setProto":
		if rapid.IntRange(0, 4).Draw(t, "nullproto") == 0 {
			op.P = -1
		} else {
			op.P = rapid.SampledFrom([]int{c.Subjects[0].Tag, c.Subjects[len(c.Subjects)-1].Tag, c.Subjects[len(c.Subjects)/2].Tag, 800, 801, 802}).Draw(t, "proto")
		}
		if op.Surf != "Reflect" {
			op.Surf = "Object"
		}
	case "assign":
		op.P = c.Subjects[rapid.IntRange(0, len(c.Subjects)-1).Draw(t, "src")].Tag
		op.Surf = "Object"
	case "preventExt", "isExt", "getProto":
		if op.Surf != "Reflect" {
			op.Surf = "Object"
		}
	default:
		op.Surf = "Object"
	}
	return op
}

func genCase(t *rapid.T) *Case {
	c := &Case{}
	n := rapid.IntRange(1, 3).Draw(t, "nsubj")
	used := map[string]bool{}
	for i := 0; i < n; i++ {
		kind := rapid.SampledFrom(modelledKinds).Draw(t, "kind")
		if used[kind] && (kind == "Math" || kind == "JSON" || kind == "Reflect") {
			kind = "plain" // singletons cannot be two subjects
		}
		used[kind] = true
		c.Subjects = append(c.Subjects, Subject{Tag: 1 + i, Kind: kind})
	}
	if rapid.Bool().Draw(t, "focused") {
		kinds := [][]string{{"y:0", "y:1"}, {`s:"0"`, `s:"1"`, `s:"2"`}, {`s:"5000"`}, {`s:"a"`, `s:"b"`, `s:"x"`}, {`s:"length"`}}
		for _, ks := range kinds {
			if rapid.Bool().Draw(t, "fk") {
				c.focus = append(c.focus, rapid.SampledFrom(ks).Draw(t, "fkpick"))
			}
		}
		if len(c.focus) == 0 {
			c.focus = []string{"y:0"}
		}
		for _, sj := range c.Subjects {
			if strings.HasPrefix(sj.Kind, "array") && rapid.Bool().Draw(t, "farr") {
				// the interplay of an element, a far index (storage switch) and length
				c.focus = []string{rapid.SampledFrom([]string{`s:"0"`, `s:"1"`, `s:"2"`}).Draw(t, "fai"), `s:"5000"`, `s:"length"`}
				break
			}
		}
	}
	nops := rapid.IntRange(1, 40).Draw(t, "nops")
	for i := 0; i < nops; i++ {
		c.Ops = append(c.Ops, genOp(t, c))
	}
	return c
}

type runner struct {
	vm    *goja.Runtime
	w     *esmodel.World
	doOp  goja.Callable
	dump  goja.Callable
	param goja.Callable
}

func callStr(f goja.Callable, args ...goja.Value) (s string, err error) {
	defer func() {
		if p := recover(); p != nil {
			err = fmt.Errorf("Go panic: %v", p)
		}
	}()
	v, err := f(goja.Undefined(), args...)
	if err != nil {
		return "", err
	}
	return v.String(), nil
}

func setup(c *Case) (*runner, *evid.Failure) {
	harness := func(msg string) *evid.Failure {
		return &evid.Failure{Check: "history", Key: "harness", Msg: msg, Case: c}
	}
	vm := goja.New()
	if o := jsx.RunProgram(vm, preludePrg); o.Kind != "value" {
		return nil, harness("prelude: " + o.Text)
	}
	r := &runner{vm: vm, w: esmodel.NewWorld()}
	get := func(name string) goja.Callable {
		f, _ := goja.AssertFunction(vm.Get(name))
		return f
	}
	r.doOp, r.dump, r.param = get("doOpS"), get("dump"), get("param")
	mk, dj := get("mkSubject"), get("dumpJSON")
	obj := vm.Get("OBJ").ToObject(vm)
	for i := 0; i < 2; i++ {
		r.w.Funcs[900+i] = &esmodel.Func{Getter: true, Ret: esmodel.Str("g" + strconv.Itoa(i)), Name: "G" + strconv.Itoa(i)}
		r.w.Funcs[910+i] = &esmodel.Func{Name: "S" + strconv.Itoa(i)}
		r.w.AddOpaque(900 + i)
		r.w.AddOpaque(910 + i)
	}
	load := func(tag int, kind string) *evid.Failure {
		s, err := callStr(dj, vm.ToValue(tag), vm.ToValue(kind))
		if err != nil {
			return &evid.Failure{Check: "history", Key: "setup:" + kind, Msg: "initial dump of " + kind + " failed: " + err.Error(), Case: c}
		}
		if _, err := r.w.Load([]byte(s)); err != nil {
			return harness("load: " + err.Error() + " " + s)
		}
		return nil
	}
	for _, s := range c.Subjects {
		if _, err := mk(goja.Undefined(), vm.ToValue(s.Kind), vm.ToValue(s.Tag)); err != nil {
			return nil, harness("mkSubject " + s.Kind + ": " + err.Error())
		}
	}
	for _, s := range c.Subjects {
		if f := load(s.Tag, modelKind(s.Kind)); f != nil {
			return nil, f
		}
		if s.Kind == "args" {
			o := r.w.Objs[s.Tag]
			o.Mapped = []bool{true, true}
			o.Params = []esmodel.Val{esmodel.Num(10), esmodel.Num(20)}
		}
	}
	for _, tag := range []int{800, 801, 802, 803} {
		if f := load(tag, "ordinary"); f != nil {
			return nil, f
		}
	}
	// every object referenced from the loaded state but not loaded itself is opaque
	for _, k := range obj.Keys() {
		if tag, err := strconv.Atoi(k); err == nil {
			r.w.AddOpaque(tag)
		}
	}
	// String.prototype is itself a String exotic object (value ""), Array.prototype an array
	if o := r.w.Objs[802]; o != nil {
		o.Kind = "array"
	}
	return r, nil
}

func (r *runner) compareState(c *Case, step int, all bool) *evid.Failure {
	tags := []int{}
	for _, s := range c.Subjects {
		tags = append(tags, s.Tag)
	}
	if all {
		tags = append(tags, 800, 801, 802, 803)
	}
	for _, tag := range tags {
		got, err := callStr(r.dump, r.vm.Get("OBJ").ToObject(r.vm).Get(strconv.Itoa(tag)))
		if err != nil {
			return &evid.Failure{Check: "history", Key: "dump", Msg: fmt.Sprintf("step %d: dump of o:%d failed: %v", step, tag, err), Case: c}
		}
		want := r.w.Dump(r.w.Objs[tag])
		if got != want {
			return &evid.Failure{Check: "history", Key: stateKey(c, step, tag), Msg: fmt.Sprintf("step %d (%s): state of o:%d (%s) differs\n  goja : %s\n  model: %s", step, opText(c, step), tag, kindOf(c, tag), got, want), Case: c, Expected: want, Observed: got}
		}
	}
	for _, s := range c.Subjects {
		if s.Kind == "args" {
			o := r.w.Objs[s.Tag]
			for i := range o.Params {
				got, err := callStr(r.param, r.vm.ToValue(s.Tag), r.vm.ToValue(i))
				if err != nil {
					return &evid.Failure{Check: "history", Key: "harness", Msg: err.Error(), Case: c}
				}
				if want := o.Params[i].String(); got != want {
					return &evid.Failure{Check: "history", Key: "state:" + opName(c, step) + ":args-param", Msg: fmt.Sprintf("step %d (%s): formal parameter %d of the mapped arguments object is %s, model says %s", step, opText(c, step), i, got, want), Case: c}
				}
			}
		}
	}
	return nil
}

func kindOf(c *Case, tag int) string {
	for _, s := range c.Subjects {
		if s.Tag == tag {
			return s.Kind
		}
	}
	return "builtin-proto"
}

func opName(c *Case, step int) string {
	if step < 0 || step >= len(c.Ops) {
		return "init"
	}
	return c.Ops[step].Op + "/" + c.Ops[step].Surf
}

func opText(c *Case, step int) string {
	if step < 0 || step >= len(c.Ops) {
		return "initial"
	}
	b, _ := json.Marshal(c.Ops[step])
	return string(b)
}

func keyClass(k string) string {
	switch {
	case k == "":
		return "-"
	case strings.HasPrefix(k, "y:"):
		return "sym"
	case k == `s:"length"`:
		return "length"
	}
	key, _ := esmodel.ParseKey(k)
	if _, ok := key.ArrayIndex(); ok {
		return "idx"
	}
	return "str"
}

func stateKey(c *Case, step int, tag int) string {
	if step < 0 || step >= len(c.Ops) {
		return "state:init:" + kindOf(c, tag)
	}
	op := c.Ops[step]
	return "state:" + op.Op + "/" + op.Surf + ":" + modelKind(kindOf(c, op.O)) + ":" + keyClass(op.K)
}

func judge(c *Case) (f *evid.Failure, executed int, nontrivial bool) {
	r, f := setup(c)
	if f != nil {
		return f, 0, false
	}
	if f := r.compareState(c, -1, true); f != nil {
		return f, 0, false
	}
	for i, op := range c.Ops {
		// non-triviality: partial descriptor on an existing property, or receiver != target
		if op.Op == "define" {
			if k, err := esmodel.ParseKey(op.K); err == nil && r.w.Objs[op.O] != nil && r.w.GetOwnProperty(r.w.Objs[op.O], k) != nil {
				d := op.D
				if !(d.HasValue && d.HasW && d.HasE && d.HasC) && !(d.HasGet && d.HasSet && d.HasE && d.HasC) {
					nontrivial = true
				}
			}
		}
		if op.R != "" && op.R != "o:"+strconv.Itoa(op.O) {
			nontrivial = true
		}
		logLen := len(r.w.Log)
		want, modelled := r.w.Apply(op)
		if !modelled {
			evid.Excluded("history cut: step not modelled (opaque object on the path)")
			return nil, i, nontrivial
		}
		b, _ := json.Marshal(op)
		got, err := callStr(r.doOp, r.vm.ToValue(string(b)))
		if err != nil {
			return &evid.Failure{Check: "history", Key: "exec:" + op.Op, Msg: fmt.Sprintf("step %d (%s): %v", i, opText(c, i), err), Case: c}, i, nontrivial
		}
		if got != want {
			return &evid.Failure{Check: "history", Key: "result:" + op.Op + "/" + op.Surf + ":" + modelKind(kindOf(c, op.O)) + ":" + keyClass(op.K), Msg: fmt.Sprintf("step %d (%s) on %s: goja returned %s, model says %s", i, opText(c, i), kindOf(c, op.O), got, want), Case: c, Expected: want, Observed: got}, i, nontrivial
		}
		// accessor call log
		jl := r.vm.Get("LOG").Export()
		var gotLog []string
		if arr, ok := jl.([]interface{}); ok {
			for _, x := range arr {
				gotLog = append(gotLog, fmt.Sprint(x))
			}
		}
		if strings.Join(gotLog, ";") != strings.Join(r.w.Log, ";") {
			return &evid.Failure{Check: "history", Key: "log:" + op.Op + "/" + op.Surf + ":" + keyClass(op.K), Msg: fmt.Sprintf("step %d (%s): accessor calls differ\n  goja : %v\n  model: %v", i, opText(c, i), gotLog[min(logLen, len(gotLog)):], r.w.Log[logLen:]), Case: c}, i, nontrivial
		}
		if f := r.compareState(c, i, i == len(c.Ops)-1); f != nil {
			return f, i, nontrivial
		}
	}
	return nil, len(c.Ops), nontrivial
}

func TestQuickHistory(t *testing.T) {
	evid.Check(t, "history", 12000, 4, func(t *rapid.T) {
		c := genCase(t)
		f, executed, nontrivial := judge(c)
		b, _ := json.Marshal(c)
		evid.Case(string(b), nontrivial && executed > 0)
		for _, s := range c.Subjects {
			evid.Count("kind:" + s.Kind)
		}
		for i := 0; i < executed && i < len(c.Ops); i++ {
			evid.Count("op:" + c.Ops[i].Op + "/" + c.Ops[i].Surf)
		}
		evid.CountN("ops-executed", int64(executed))
		evid.Sample("history", c)
		evid.Judge(t, f)
	})
}

func jsonOps(c *Case) string { b, _ := json.Marshal(c); return string(b) }

func TestReplay(t *testing.T) {
	p := os.Getenv("VERIF_REPLAY")
	if p == "" {
		t.Skip("no VERIF_REPLAY")
	}
	_, raw, err := evid.LoadReplay(p)
	if err != nil {
		t.Fatal(err)
	}
	var c Case
	if err := json.Unmarshal(raw, &c); err != nil {
		t.Fatal(err)
	}
	f, _, _ := judge(&c)
	evid.Direct(t, f)
}
