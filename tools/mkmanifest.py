#!/usr/bin/env python3
"""Regenerate /verif/MANIFEST.json from the table below (kept in one place so
that claiming a property is a one-line change)."""
import json, os, subprocess
V = os.path.join(os.path.dirname(os.path.abspath(__file__)), '..')
hook_commits = subprocess.run(['git','-C','/repo','log','--format=%H','--grep=^verif:'],capture_output=True,text=True).stdout.split()

# id -> (technique, level text, level_note, design_ref)
CLAIMED = {
 "C08": ("rapid property-based testing of control-flow programs with instrumented iterators: an interpreter-independent trace-validity predicate plus differential testing against the definitional interpreter refjs",
         "Function bodies from a control-flow grammar (nesting <= 5) over try/catch/finally in all three shapes, the five loop kinds with and without labels, labelled blocks, switch, with, for-of/array destructuring/spread/Array.from over instrumented iterators (without return(), next() throwing or returning a non-object, return() throwing or returning a non-object) and over generators, with break/continue/return/throw placed at random statement positions incl. inside catch and finally. Oracle 1 needs no interpreter: the logged try/finally events obey LIFO bracket discipline with every pending finally run exactly once, every iterator gets return() at most once, never after next() reported done or threw, exactly once when left before exhaustion, every started generator runs its finally exactly once. Oracle 2: the whole trace, completion value and exception equal refjs (this is what decides 'a completion from finally overrides the pending one').",
         "Trusted: refjs for oracle 2 only. Interrupt/stack-overflow unwinding (no finally, no return()) is decided by C15 and by C01's idle-state check; generator return()/throw() driven from outside is C09.",
         "DESIGN.md 4/C08"),
 "C12": ("rapid property-based testing over structured float64 bit patterns and boundary-constructed numeric texts against an exact math/big model of the ECMA-262 conversion algorithms",
         "Doubles (uniform bit patterns, every exponent with boundary mantissas, powers of two and ten +-2 ulp, subnormals of every bit length, the 2^53 neighbourhood, 17-digit shortest forms) x digit counts 0..100 x radices 2..36 are formatted with String, toFixed, toExponential, toPrecision and toString(radix) and compared with an exact big-integer model (shortest and closest digits, half-up rounding from the exact binary value, ECMAScript layout, radix parse-back). Decimal midpoints of adjacent doubles (+-1 unit, up to 800 digits), hex/octal/binary midpoints (up to 300 digits) and exact ties are pushed through literals, Number(), unary plus, parseFloat, parseInt and JSON.parse and must give the nearest double, ties to even.",
         "Trusted: math/big; strconv and big.Float only cross-check the model (a disagreement between them is a harness error). The spec's permission to zero digits after the 20th applies only to parseInt radix 10; one ulp is accepted for non-power-of-two radices above 53 bits. 08/09 literal forms are excluded. Whether Grisu or the bignum fallback ran is not observable; subnormal and 17-digit inputs are oversampled instead.",
         "DESIGN.md 4/C12"),
 "C14": ("rapid property-based generation of Go/JS call chains judged against an expectation computed from the chain description alone; exhaustive enumeration of all chains of depth <= 2 (quick) and depth 3 over representative payloads (thorough)",
         "Call chains of depth <= 8 over 21 script and 7 native frame kinds, 15 Go call mechanisms (FunctionCall, reflect-wrapped funcs with/without error, ConstructorCall, ExportTo'd funcs, Callable, accessor via Object.Get, Proxy traps, DynamicObject, promise jobs) and 48 payloads (primitives, objects, Error subclasses, GoError, wrapped/joined Go errors, nil, foreign panics, interrupts, depth overflow) with try/catch/finally at any subset of script frames. The oracle derives from the chain alone: what every catch block receives, the host error type, value identity (pointer equality and === in script), errors.Is/As/Unwrap, GoError.value, Stack()[0] line and function name where creation and throw site coincide, promise state, and that uncatchable conditions are never observed by script.",
         "Trusted: the chain-to-expectation function, written from the property text, the README Exceptions section and the ExportTo/Interrupt/Try doc comments. Async frames occur only as a chain prefix; interrupts need a direct script caller; foreign panics are checked only for arrival with the same value.",
         "DESIGN.md 4/C14"),
 "C17": ("rapid stateful model-based testing: operation histories over canary-guarded Go-supplied ArrayBuffers judged after every step against a byte-array reference model written from ECMA-262",
         "Histories of up to 25 operations over 1-3 buffers of 0..64 bytes placed inside 4 KiB Go slabs pre-filled with a position-dependent canary pattern (capacity extends past the buffer, so an over-long access lands on canaries): views of all 11 element types at every offset/length, element get/set with boundary values and non-canonical keys, every %TypedArray%.prototype method incl. set with overlapping and other-typed sources, copyWithin, fill, slice, subarray, sort with comparators, species constructors, DataView get/set for all types, endiannesses and offsets, ArrayBuffer.prototype.slice, Export/ExportTo and Go writes through the exported slice; any numeric argument may be an object whose valueOf detaches the receiver's or the source's buffer or writes into it. After each step the result or thrown constructor, the callback log, every buffer byte, all canary bytes and the aliasing through the Go handle are compared with the model.",
         "Trusted: c17/model.go + ops.go (NumericToRawBytes/RawBytesToNumeric, per-method detach semantics from ECMA-262), numref, math/big. NaN encodings are accepted as any NaN. An out-of-buffer write is visible within +-2 KiB of the buffer. Known finding: a comparator result of -0 is treated as 'less' in sort/toSorted (pinned test demands it). subarray on an already-detached receiver is excluded (ES2023 and ES2024 disagree).",
         "DESIGN.md 4/C17"),
 "C20": ("rapid differential property testing: generated patterns paired with a neutral engine-forcing variant, run on {RE2, regexp2} x {fast path, generic protocol path}; plus a validity-by-construction syntax sub-check",
         "AST-generated ECMAScript patterns are paired with a semantically neutral variant that forces the other engine (confirmed by the VerifRegexpEngine hook) and executed in a pristine runtime (fast path) and in one de-optimised by forwarding wrappers, subclassing or own properties (generic path). The structural dumps of exec, test, match, matchAll, replace, replaceAll, search and split (indices, numbered and named captures, lastIndex after every call) must be equal four ways; built-ins are also compared with the ECMA-262 protocol algorithms evaluated over exec(), including exec call counts, and the UTF-16/lastIndex contract of RegExpBuiltinExec is checked on every dump. A second sub-check generates flag strings and patterns that are invalid by construction and demands SyntaxError from the constructor, literals and compile().",
         "Trusted: the neutrality of the three variants; the JS transcription of ECMA-262 22.2.6 in the prelude; a Go transcription of 22.2.2 and a direct call into dlclark/regexp2 are used only to attribute known dependency defects, never for the verdict. A deviation common to both engines and both paths is invisible by design of the property. 14 known input classes (mostly defects of the regexp2 dependency and u-mode-only syntax errors) are thinned to 1/40 by construction and kept visible.",
         "DESIGN.md 4/C20"),
 "C02": ("rapid property-based differential testing against a definitional interpreter (refjs) plus metamorphic testing under a catalogue of semantics-preserving rewrites",
         "Closed programs in the subset J0 are generated as ASTs, printed for goja and interpreted directly by refjs, an environment-record/completion-record interpreter written from ECMA-262; log sequence, completion value and exception must be equal in strict and sloppy mode and in global, function and direct-eval placement. Independently of refjs, 1-3 rewrites per program (constant -> variable, closure capture of every identifier, dynamic scope via a dead direct eval, dead code after break, function expression -> direct eval of its own source, block wrap) must leave goja's observation unchanged; the hook VerifDumpTypes measures whether a rewrite really changed the emitted instruction types.",
         "Trusted: refjs for the definitional half (validated against goja on ~100k programs with every disagreement triaged against the specification; the metamorphic half does not depend on it). Generator restrictions that exist only because of known goja findings are switchable and counted under excluded; each known finding is kept visible by a fixed probe. J0 excludes Annex B function-in-block semantics, private names, tagged templates, regex, BigInt and most built-ins.",
         "DESIGN.md 4/C02"),
 "C06": ("rapid property-based differential testing of string producers against a UTF-16 reference evaluator (strref), with representation-crossing pairs and ~90 observers",
         "Pairs of SSA scripts (operator trees of depth <= 4 over 30+ String operations with string and escaped-literal RegExp arguments) are generated so that strref assigns both the same code-unit sequence while leaves and route edits cross goja's three string representations (ASCII, UTF-16, lazily imported Go string on both sides of 16 bytes). Every step is compared unit-wise with the model and with a literal twin; the final pair goes through JS observers (equality, SameValue, order, Map/Set/property/Symbol keys, array-index use, search, code points), Go-API observers (Export/ExportTo/String with the documented U+FFFD replacement, StringFromUTF16, DefineDataProperty/map keys) and cross-representation twins; normalize is judged through UAX#15 invariants.",
         "Trusted: strref (hand-written from ECMA-262, closed case-mapping alphabet), the VerifStrRepr hook (classification only). Excluded: JSON.parse of unpaired surrogates (README-documented), Go strings with invalid UTF-8, regex arguments containing U+FFFF (known regexp2 defect, kept visible by a probe).",
         "DESIGN.md 4/C06"),
 "C19": ("rapid grammar-based differential testing against an independent JSON reference (jsonref): ECMA-404 recogniser/exact-decimal parser, SerializeJSONProperty/QuoteJSONString and InternalizeJSONProperty models",
         "Valid JSON texts from a grammar (nesting <= 8, every escape form, white space everywhere, long mantissas/exponents, duplicate and __proto__ keys), all single-edit corruptions (random and a deterministic sweep over 20 texts), non-string inputs and a reviver catalogue are parsed by goja and by jsonref: acceptance/error class and the structural dump (exact number bits, key order, attributes, code units) must be equal. Generated values (holes, boxed primitives, -0/non-finite, BigInt, symbols, toJSON variants, proxies, cycles) x replacers x indents are stringified and compared with the modelled output text; round-trip, canonical-form and MarshalJSON laws are checked.",
         "Trusted: jsonref (no encoding/json) and numref.DecimalToFloat. toJSON/replacer/reviver behaviour is quantified over a fixed catalogue; proxies are transparent only. Known finding: a lone surrogate in the gap string comes out as U+FFFD. Lone surrogates in parse input are excluded as documented in the README.",
         "DESIGN.md 4/C19"),
 "C07": ("rapid stateful/model-based testing with a twin differential: array histories on the array, on a sparse-forced twin and on esmodel (array exotic object + generic Array.prototype algorithms); sort judged by a stable-sort reference and permutation validity",
         "Array histories of up to 30 steps (indexed writes/deletes/defines incl. accessors and non-configurable elements, length changes incl. invalid values and shrinking across non-configurable elements, freeze/seal, indexed properties on the prototypes, bulk fills that cross the dense<->sparse switching thresholds, 27 Array.prototype methods incl. callbacks that resize the receiver) are executed on the array, on a twin that was forced into sparse storage, and on esmodel's spec algorithms; results, accessor call logs and complete states must agree three ways after every step. Sort: element lists with holes/undefined/duplicates x 18 comparators x dense/sparse/array-like receivers against the unique stable order, a permutation predicate for inconsistent comparators, and crash-freedom for mutating ones.",
         "Trusted: esmodel's array algorithms (from ECMA-262 23.1.3). The hook VerifArrayKind is used only to measure that storage transitions really happened. Known finding: a comparator result of -0 is treated as 'less' (pinned test demands it). Go slice wrappers are judged by C13.",
         "DESIGN.md 4/C07"),
 "C18": ("rapid stateful/model-based testing: Map/Set operation histories with live iterators against an append-only-list SameValueZero model; symbol-keyed property table histories against an OrdinaryOwnPropertyKeys list model",
         "Histories of up to 40 operations over a 12-key pool containing SameValueZero-equal keys in different representations (NaN three ways, +0/-0, equal numbers/strings/BigInts built differently, hash-collision classes) on one Map or Set with up to 3 live iterators, forEach/for-of callbacks that mutate the collection, and Go-side Export/ExportTo; every result, iterator step, size and export is compared with a spec-derived list model with tombstones. A second sub-check runs assign/define/delete/mutating-getter histories on the symbol-keyed property table and compares getOwnPropertySymbols/Reflect.ownKeys/Object.assign/spread with a list model.",
         "Trusted: the list model (written from the Map/Set iterator and OrdinaryOwnPropertyKeys algorithms). Lone-surrogate strings, integer keys on Error objects and object keys exported into Go maps (documented to panic) are excluded by construction.",
         "DESIGN.md 4/C18"),
 "C04": ("rapid stateful/model-based testing: generated operation histories run in lock-step on goja and on a reference model of the ECMAScript object internal methods (esmodel)",
         "Histories of up to 40 operations (defineProperty with all 64 descriptor shapes, get/set with explicit receivers, delete, has, ownKeys variants, integrity levels, prototype changes, for-in, Object.assign) over 1-3 subjects of 32 object kinds and index/numeric-string/string/symbol keys, issued through syntax (strict and sloppy), Object.* and Reflect.*; after every step the result, the accessor call log and the complete state (ordered keys, descriptors, extensibility, prototype) of every subject are compared with esmodel, which implements 10.1 ordinary objects, 10.4.2 Array (ArraySetLength), 10.4.3 String and 10.4.4 mapped arguments from the specification text. Shrunk histories become replay files.",
         "Trusted: esmodel (written from ECMA-262, independent of goja). The initial property tables are read from the runtime itself, so only behaviour under operations is judged. Typed arrays, Go-backed wrappers and DynamicObject are not yet covered by this check (typed arrays are judged by C17, Go wrappers by C13). The Go API surface (Object.Get/Set/Define...) is exercised by C13/C14, not here.",
         "DESIGN.md 4/C04"),
 "C01": ("rapid property-based testing / grammar-based fuzzing: generated programs over the whole syntax, token mutations and raw bytes, judged by a crash/diagnostic/VM-idle-state oracle",
         "Generated-input search over source texts (<=64 KiB, nesting <=200) in three layers - grammar programs over every production incl. deep nesting, token-level mutations, raw bytes with malformed UTF-8 - each in strict/sloppy and global/function/eval/new Function placement, through Parse, Compile and Run. Oracle: only documented error kinds come back, no Go panic reaches the harness, no 'Compiler bug' diagnostic, err.Error() itself does not panic, and after the run the VM registers are idle (operand stack at 0, call/try/iterator/reference stacks empty, global scope, no pending jobs) and the runtime still runs 1+1. A process death (fatal error) is attributed to the case in flight by the driver.",
         "Trusted: the hook accessor VerifVMState (read-only); the 150 ms interrupt watchdog (can only lose detections). Inputs that do not terminate inside a non-interruptible built-in are counted inconclusive. Evidence by search: crashes that need inputs outside the generators' reach are not excluded.",
         "DESIGN.md 4/C01"),
 "C05": ("rapid property-based testing: backward-constructed expression-tree pairs + conversion sites against an exact float64/math-big oracle",
         "Generated-input search: 160k pairs of expression trees built backwards from a target double (so the oracle value is known exactly) are compared through 45 observers (Object.is both ways, ===, switch, Map/Set, includes/indexOf, property keys, String, typed-array and array indexing, Export type); 160k operand x conversion-site cases (118 sites: bit ops, all typed-array/DataView stores, ToIntegerOrInfinity/ToIndex/ToLength users, ExportTo of every Go numeric type) are compared with numref. Evidence by search, not proof; shrinking yields a minimal replay file.",
         "Trusted: Go float64 arithmetic and math/big; numref (written from ECMA-262, independent of goja); strconv shortest formatting for Number::toString of the oracle. Math functions with implementation-approximated results are used only where the result is exactly specified (integral powers with exact results are demanded exactly).",
         "DESIGN.md 4/C05"),
}
NOT_YET = "check not built yet in this session; DESIGN.md section 4 describes the planned generated check (build order in section 5)"

props = [json.loads(l) for l in open(os.path.join(V,'properties.jsonl'))]
checks, na = [], []
for p in props:
    i = p['id']
    if i in CLAIMED:
        tech, text, note, ref = CLAIMED[i]
        checks.append({
            "property_id": i,
            "quick_cmd": f"./check run {i} quick",
            "thorough_cmd": f"./check run {i} thorough",
            "evidence_file": f"/verif/evidence/{i}.json",
            "replay_cmd_template": f"./check replay {i} {{path}}",
            "engine": "vcheck",
            "level_claimed": {"category": "exploration", "text": text, "design_ref": ref},
            "level_note": note,
            "technique": tech,
        })
    else:
        na.append({"property_id": i, "reason": NOT_YET})
m = {
 "version": 1,
 "setup_cmd": "./check --setup",
 "hooks": {
   "guard": "verif",
   "enable": "go test -tags verif (the harness module replaces github.com/dop251/goja with /repo, so every check rebuilds from /repo's working tree)",
   "baseline_off_cmd": "cd /repo && go test -mod=mod -json -vet=off -count=1 -timeout 25m ./...",
   "source_commits": hook_commits,
   "add_only": True,
 },
 "engines": [{"name": "vcheck", "path": "/verif/harness/cmd/vcheck", "serves_properties": sorted(CLAIMED), "kind_free_text": "Go driver: builds one rapid-based test package per property against /repo (tag verif), shards by derived seeds, merges counters into evidence, maps outcomes to exit codes 0/1/2"}],
 "checks": checks,
 "notes": "All checks are property-based tests / fuzzers (pgregory.net/rapid v1.3.0) with explicit oracles; see DESIGN.md. known_findings.json lists genuine defects (fixed by 'fix:' commits in /repo, or known).",
 "not_applicable": na,
}
json.dump(m, open(os.path.join(V,'MANIFEST.json'),'w'), indent=1)
open(os.path.join(V,'MANIFEST.json'),'a').write('\n')
print("claimed:", sorted(CLAIMED), "unclaimed:", len(na))
