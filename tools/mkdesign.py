#!/usr/bin/env python3
"""Regenerate the generated sections of DESIGN.md (11 findings, 12 seeded changes)
from known_findings.json and seeded/*/{meta,result}.json."""
import glob, json, os, re
V = os.path.join(os.path.dirname(os.path.abspath(__file__)), '..')
def esc(t):
    return str(t).replace('|', '\\|').replace('\n', ' ')
kf = json.load(open(f'{V}/known_findings.json'))['findings']
out = ['## 11. What the machinery found in goja', '',
       'Every entry was produced by a registered check (or by a builder agent running that check in its private',
       'copy) as a shrunk failing case, examined against ECMA-262 / the documentation, and then either repaired',
       'in `/repo` by one minimal `fix:` commit (the pinned suite passes unedited after each) or, where no small',
       'safe repair exists, recorded as a known finding. `known_findings.json` is the authoritative list; a',
       '`fixed` entry suppresses nothing.', '']
known = [f for f in kf if f['status'] == 'known']
fixed = [f for f in kf if f['status'] == 'fixed']
out += [f'### 11.1 Known findings, not repaired ({len(known)})', '',
        'Each prints a `KNOWN-FINDING:` line when its key is hit and is kept visible by a fixed probe or by a',
        'thinned-out input class; any failure with another key still alarms.', '',
        '| property | key | what fails |', '|---|---|---|']
for f in known:
    out.append(f"| {f['property']} | `{esc(f['key'])}` | {esc(f['what'])} |")
out += ['', f'### 11.2 Defects repaired by `fix:` commits ({len(fixed)} entries)', '',
        '| property | commit | what failed |', '|---|---|---|']
for f in fixed:
    out.append(f"| {f['property']} | {f['commit']} | {esc(f['what'])} |")
findings = '\n'.join(out)

rows = []
for d in sorted(glob.glob(f'{V}/seeded/*/')):
    name = os.path.basename(d.rstrip('/'))
    try:
        meta = json.load(open(d + 'meta.json'))
    except Exception:
        continue
    res = json.load(open(d + 'result.json')) if os.path.exists(d + 'result.json') else {}
    caught = []
    missed = []
    for k, r in sorted(res.items()):
        (caught if r.get('caught') else missed).append(f"{k} ({r.get('wall_s')} s)" if r.get('caught') else f"{k} (exit {r.get('exit')})")
    note = ''
    if os.path.exists(d + 'NOTE.md'):
        note = open(d + 'NOTE.md').read().strip().replace('\n', ' ')
    rows.append(f"| {name} | {esc(', '.join(meta.get('files', [])))} | {esc(meta.get('title',''))}: {esc(meta.get('trigger',''))[:400]} | {esc('; '.join(caught)) or '-'} | {esc('; '.join(missed)) or '-'} | {esc(note)} |")
seeded = '\n'.join(['## 12. Seeded changes: which check catches what', '',
    'Each change below was written by a fresh sub-agent that saw only the text of one property and a scratch',
    'worktree (nothing from `/verif`), was confirmed here in a scratch worktree (`tools/seedconfirm.sh`: it builds,',
    'vets, passes the whole pinned suite, its demonstration fails with the change and passes without), and is kept',
    'in `seeded/<name>/` (patch.diff, demo, meta.json, result.json). `tools/seedrun.py` applies it to `/repo`, runs',
    'the registered command, and undoes it; nothing is ever committed to `/repo`. "caught" = the command exited 1',
    'with a `VIOLATION property=<that id>` line.', '',
    '| change | files | what / trigger | caught by | not caught by | note |', '|---|---|---|---|---|---|'] + rows)

p = f'{V}/DESIGN.md'
s = open(p).read()
def put(s, tag, body):
    return re.sub(r'<!-- BEGIN GENERATED: %s -->.*?<!-- END GENERATED: %s -->' % (tag, tag),
                  lambda m: f'<!-- BEGIN GENERATED: {tag} -->\n{body}\n<!-- END GENERATED: {tag} -->', s, flags=re.S)
s = put(s, 'findings', findings)
s = put(s, 'seeded', seeded)
open(p, 'w').write(s)
print('findings', len(kf), 'seeded', len(rows))
