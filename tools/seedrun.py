#!/usr/bin/env python3
"""Run registered checks against a kept seeded change: apply /verif/seeded/<name>/patch.diff to
/repo (never committed), run `./check run <ID> <tier>` for each requested property, undo the
change straight afterwards, and record the outcome in /verif/seeded/<name>/result.json.
Evidence files rewritten by these runs are restored from git; replay files are moved under
/verif/seeded/<name>/replay/ (first one per check only).
usage: seedrun.py <name> [tier=quick] [ID ...]   (default ID = the property of the change)
Nothing else may use /repo while this runs."""
import json, os, re, shutil, subprocess, sys, time
name = sys.argv[1]
args = sys.argv[2:]
tier = 'quick'
if args and args[0] in ('quick', 'thorough'):
    tier = args.pop(0)
d = f'/verif/seeded/{name}'
meta = json.load(open(f'{d}/meta.json'))
ids = args or [meta['property']]
def sh(*a, **k):
    return subprocess.run(a, capture_output=True, text=True, **k)
st = sh('git', '-C', '/repo', 'status', '--porcelain').stdout.strip()
if st:
    sys.exit('refusing: /repo working tree is not clean:\n' + st)
r = sh('git', '-C', '/repo', 'apply', f'{d}/patch.diff')
if r.returncode:
    sys.exit('patch does not apply: ' + r.stderr)
try:
    res_path = f'{d}/result.json'
    results = json.load(open(res_path)) if os.path.exists(res_path) else {}
    for ID in ids:
        env = dict(os.environ, VERIF_SEED=os.environ.get('VERIF_SEED', '1'))
        t0 = time.time()
        p = sh('/verif/check', 'run', ID, tier, env=env, cwd='/verif')
        out = p.stdout + p.stderr
        viol = re.findall(r'^VIOLATION property=(\S+) replay=(\S+)', out, re.M)
        details = re.findall(r'^  detail: (.*)$', out, re.M)
        caught = p.returncode == 1 and any(v[0] == ID for v in viol)
        entry = {'tier': tier, 'exit': p.returncode, 'caught': caught, 'violations': len(viol),
                 'wall_s': round(time.time() - t0, 1), 'seed': env['VERIF_SEED'],
                 'first_detail': (details[0][:300] if details else ''),
                 'head': sh('git', '-C', '/repo', 'rev-parse', '--short', 'HEAD').stdout.strip()}
        if viol:
            os.makedirs(f'{d}/replay', exist_ok=True)
            src = viol[0][1]
            if os.path.exists(src):
                shutil.copy(src, f'{d}/replay/{ID}-{tier}.json')
                entry['replay'] = f'seeded/{name}/replay/{ID}-{tier}.json'
        results[f'{ID}:{tier}'] = entry
        print(f"{name} {ID} {tier}: exit={p.returncode} caught={caught} violations={len(viol)} wall={entry['wall_s']}s {entry['first_detail'][:160]}")
    json.dump(results, open(res_path, 'w'), indent=1)
finally:
    sh('git', '-C', '/repo', 'checkout', '--', '.')
    left = sh('git', '-C', '/repo', 'status', '--porcelain').stdout.strip()
    if left:
        print('WARNING: /repo not clean after undo:\n' + left)
    sh('git', '-C', '/verif', 'checkout', '--', 'evidence')
    # drop replay files written by the runs against the changed tree
    for ID in ids:
        rd = f'/verif/replay/{ID}'
        if os.path.isdir(rd):
            for f in os.listdir(rd):
                if f.endswith('.json'):
                    os.remove(os.path.join(rd, f))
