#!/bin/sh
# Runs /repo's pinned suite with the verif guard OFF (the BASELINE.json command, text output).
cd /repo && GOFLAGS=-mod=mod GOPROXY=off go test -vet=off -count=1 -timeout 25m ./... 2>&1 | grep -v "no test files"
