#!/bin/sh
# Runs /repo's pinned suite with the verif guard OFF (the BASELINE.json command, text output).
# Exit status 0 only if every package passes.
cd /repo && out=$(GOFLAGS=-mod=mod GOPROXY=off go test -vet=off -count=1 -timeout 25m ./... 2>&1); rc=$?
echo "$out" | grep -v "no test files"
exit $rc
