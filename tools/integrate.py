#!/usr/bin/env python3
"""Integrate a builder agent's delivery: props.go entry and known_findings entries
(fixed entries are re-pointed to the commit with the same subject in /repo).
usage: integrate.py <ID> [commit-map overrides old=new ...]"""
import json, re, subprocess, sys
ID = sys.argv[1]
over = dict(a.split('=') for a in sys.argv[2:])
av, wt = f'/tmp/av-{ID}', f'/tmp/wt-{ID}'
# props entry
src = open(f'{av}/harness/cmd/vcheck/props.go').read()
m = re.search(r'\t"%s": \{.*?\n\t\},\n' % ID, src, re.S)
p = '/verif/harness/cmd/vcheck/props.go'
s = open(p).read()
if ('"%s": {' % ID) not in s:
    s = s.replace('var props = map[string]propCfg{\n', 'var props = map[string]propCfg{\n' + m.group(0), 1)
    open(p, 'w').write(s)
    print('props entry added')
# known findings
theirs = json.load(open(f'{av}/known_findings.json'))['findings']
mine = json.load(open('/verif/known_findings.json'))
subj_repo = {}
for l in subprocess.run(['git','-C','/repo','log','--format=%h\t%s'],capture_output=True,text=True).stdout.splitlines():
    h, sub = l.split('\t',1); subj_repo.setdefault(sub, h)
have = {(f['property'], f['key'], f['what']) for f in mine['findings']}
for f in theirs:
    if f['property'] != ID: continue
    if (f['property'], f['key'], f['what']) in have: continue
    if f['status'] == 'fixed':
        old = f['commit']
        if old in over:
            new = over[old]
        else:
            sub = subprocess.run(['git','-C',wt,'log','-1','--format=%s',old],capture_output=True,text=True).stdout.strip()
            new = subj_repo.get(sub)
        if not new:
            print('!! no /repo commit for', old, f['what'][:60]); continue
        f['commit'] = new
        f['line'] = f"fixed: property={ID} {new} {f['what']}"
    mine['findings'].append(f)
    print('added', f['status'], f['key'], f.get('commit',''))
json.dump(mine, open('/verif/known_findings.json','w'), indent=1, ensure_ascii=False)
open('/verif/known_findings.json','a').write('\n')
