#!/usr/bin/env python3
"""Maintain /verif/known_findings.json (never written at check run time).
usage: kf.py fixed <prop> <commit> <key> <what>
       kf.py known <prop> <key> <what>
       kf.py list
"""
import json, sys, os
P = os.path.join(os.path.dirname(os.path.abspath(__file__)), '..', 'known_findings.json')
def load():
    try:
        return json.load(open(P))
    except FileNotFoundError:
        return {"comment": "status=known entries print KNOWN-FINDING and are skipped by key; status=fixed entries suppress nothing (the check alarms if the failure returns). 'line' is the record in the form the task brief asks for.", "findings": []}
def save(d):
    json.dump(d, open(P, 'w'), indent=1, ensure_ascii=False)
    open(P, 'a').write('\n')
d = load()
if sys.argv[1] == 'fixed':
    _, _, prop, commit, key, what = sys.argv
    d['findings'].append({"property": prop, "key": key, "status": "fixed", "commit": commit, "what": what, "line": f"fixed: property={prop} {commit} {what}"})
    save(d)
elif sys.argv[1] == 'known':
    _, _, prop, key, what = sys.argv
    d['findings'].append({"property": prop, "key": key, "status": "known", "what": what, "line": f"KNOWN-FINDING: property={prop} {what}"})
    save(d)
else:
    for f in d['findings']:
        print(f['line'])
