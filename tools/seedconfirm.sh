#!/bin/sh
# Confirm a seeded change delivered by a mutant agent, in a scratch worktree of /repo
# (never in /repo itself), and keep it under /verif/seeded/<name>/ if every claim holds:
#   builds, vets, the whole pinned suite passes with the change, the demo fails with the
#   change and passes without it.
# usage: seedconfirm.sh <delivery dir, e.g. /tmp/mut-C07-out/m1> <name, e.g. C07-m1>
set -u
src=$1; name=$2
export GOFLAGS=-mod=mod GOPROXY=off
wt=/tmp/seedwt-$name
git -C /repo worktree remove --force $wt >/dev/null 2>&1
git -C /repo worktree add --detach $wt HEAD >/dev/null 2>&1 || { echo "cannot create worktree"; exit 2; }
trap 'git -C /repo worktree remove --force $wt >/dev/null 2>&1' EXIT
cd $wt
res() { echo "$name: $1"; }
git apply --check $src/patch.diff 2>/dev/null || { res "REJECT patch does not apply to HEAD"; exit 1; }
if git apply --numstat $src/patch.diff | awk '{print $3}' | grep -q -e '_test\.go$' -e 'verif_hooks.go' -e '^go\.mod$' -e '^go\.sum$'; then res "REJECT touches test/hook/module files"; exit 1; fi
demo=$(ls $src/demo/*_test.go | head -1)
race=""
python3 -c "import json,sys; sys.exit(0 if json.load(open('$src/meta.json')).get('demo_needs_race') else 1)" && race="-race"
cp $demo $wt/zz_seeded_demo_test.go
out0=$(go test $race -vet=off -count=1 -run TestSeededDemo . 2>&1); rc0=$?
[ $rc0 -eq 0 ] || { res "REJECT demo fails WITHOUT the change"; echo "$out0" | tail -5; exit 1; }
echo "$out0" | grep -q "no tests to run" && { res "REJECT demo has no TestSeededDemo"; exit 1; }
git apply $src/patch.diff
go build ./... >/dev/null 2>&1 || { res "REJECT does not build"; exit 1; }
go vet -tags verif . >/dev/null 2>&1 || { res "REJECT go vet -tags verif fails"; exit 1; }
out1=$(go test $race -vet=off -count=1 -run TestSeededDemo . 2>&1); rc1=$?
[ $rc1 -ne 0 ] || { res "REJECT demo passes WITH the change"; exit 1; }
rm $wt/zz_seeded_demo_test.go
suite=$(go test -vet=off -count=1 -timeout 25m ./... 2>&1); rcs=$?
[ $rcs -eq 0 ] || { res "REJECT pinned suite fails with the change"; echo "$suite" | grep -v "^ok\|no test files" | head -10; exit 1; }
dst=/verif/seeded/$name
rm -rf $dst; mkdir -p $dst/demo
cp $src/patch.diff $dst/patch.diff
cp $src/demo/*_test.go $dst/demo/
cp $src/meta.json $dst/meta.json
echo "$out1" | grep -v "^ok\|^FAIL\|^exit" | head -15 > $dst/demo/with_change.txt
res "CONFIRMED ($(git apply --numstat $src/patch.diff | awk '{printf "%s +%s -%s; ", $3, $1, $2}'))"
