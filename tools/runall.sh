#!/bin/sh
# usage: runall.sh <tier> <seed> [IDs...]  - runs the registered commands one after another, prints one summary line each
tier=$1; seed=$2; shift 2
ids="$@"
[ -z "$ids" ] && ids=$(python3 -c "import json; print(' '.join(c['property_id'] for c in json.load(open('/verif/MANIFEST.json'))['checks']))")
for id in $ids; do
  out=$(cd /verif && VERIF_SEED=$seed ./check run $id $tier 2>&1); rc=$?
  echo "$id $tier seed=$seed exit=$rc $(echo "$out" | grep -c '^VIOLATION') violations | $(echo "$out" | grep "^$id $tier:" | tail -1)"
  echo "$out" | grep '^VIOLATION\|^  detail' | head -6 | cut -c1-300
done
